#!/usr/bin/env python3
"""Regenerates MANIFEST.json from the table below (kept in one place so that it stays valid)."""
import json, os
VERIF = os.path.dirname(os.path.abspath(__file__))

CHECKS = {
 # id: (level category, technique, level text, level note, design ref)
 "C01": ("exploration", "property-based testing against a sorted-set reference model (proptest, regime-directed generators) + complete small-scope enumeration + piecewise periodic vectors beyond 2^32 bits against a closed-form model",
         "Every query of the plain bitvector is compared with an independent sorted-set model on generated bit sequences that are directed at the internal regimes (short/long select superblocks for ones and zeros, partial words/blocks, many superblocks), built through 11 public routes; every bit string up to length 12 (16 thorough) is enumerated with every argument; 1 (3 thorough) piecewise periodic vectors of 2^32..2^33 bits per build configuration are compared with closed formulas around zone edges and 2^31/2^32/2^33; the public building blocks (RankSupport::rank, SelectSupport::<Identity|Complement>::select) are asked directly at valid arguments; clone_from and the conversion back to a raw vector are part of the comparison. Held-on-everything-explored, not a proof.",
         "Trusts the reference model (binary search on a sorted position list) and rustc; generated vectors limited to 450k bits quick / 2M bits thorough; above 20k bits arguments are structural edges + sampled.", "DESIGN.md §3 C01"),
 "C08": ("exploration", "program-level property-based testing (generated call programs with arbitrary arguments over an object heap) under process-level monitors (std unsafe-precondition checks, signals) with per-case worker isolation; coverage-guided libFuzzer+ASan campaign of the same interpreter in the thorough tier",
         "Generated programs call every safe entry point of every structure with arbitrary arguments (tail offsets, extreme indexes, arbitrary iterator scripts, arbitrary builder sequences, stale and fresh supports through their public building blocks, conversions into plain vectors also from multisets, reloads, byte vectors read back as strings, mapped views at structure starts / outside the file / on truncated files). Panics are legal; a str that is not UTF-8 is a violation; the process must survive with every unchecked slice access checked against the slice length by the standard library's precondition checks, under release arithmetic and under overflow checks; mapped views must lie inside the map.",
         "The monitor sees accesses outside a slice, not logically-wrong accesses inside one; unsafe fns are called only within their contracts; allocation sizes are bounded.", "DESIGN.md §3 C08"),
 "C20": ("exploration", "stress testing with generated thread/call configurations and a process-wide uniqueness invariant over the whole call history (schedules sampled by the OS, not enumerated)",
         "Generated bursts (2..64 threads x up to 5000 calls, barrier released, 16 bursts concurrently; name parts empty, long, non-ASCII, with dots and spaces, differing only by trailing digits; sometimes with files planted under the next few names) call temp_file_name, and in 30% of the cases fresh child processes make their very first calls from 2..16 spinning threads at once; the invariant - no path ever returned twice in the process, every path contains the caller's name part - is checked over the complete history. This family cannot own the schedule of an unmodified atomic; the bursts were measured to expose a load+store counter in 20/20 rounds.",
         "Schedules are sampled, not enumerated: a lost update needing a rarer interleaving than the bursts provoke can be missed; replay re-samples schedules.", "DESIGN.md §3 C20"),
 "C09": ("exploration", "property-based testing with extreme-argument generators against the documented out-of-range answers and the reference models, three-type differential, in two arithmetic configurations with per-case process isolation",
         "Every query of the three bitvector types, of huge sparse / run-length vectors, of the wavelet matrix and its core is asked at {0,1,len-1,len,len+1,2len,count+-1,2^63,MAX-1,MAX,...} and must give the documented answer without panicking; nth/nth_back beyond the remainder must exhaust fresh, partly consumed and positioned iterators; constructors must accept exactly the valid widths. Run with overflow checks on (a wrapped addition is a panic) and with release arithmetic + std unsafe-precondition checks (a wrapped addition is a wrong answer or an abort), each case in a worker process.",
         "Trusts the reference models; get() is not called out of range (documented as may-panic); allocation-sizing arguments are kept small.", "DESIGN.md §3 C09"),
 "C10": ("exploration", "model-based property testing of iterator call histories against a VecDeque of the reference sequence + complete enumeration of short call sequences on all tiny bit strings; coverage-guided libFuzzer+ASan campaign of the same interpreter in the thorough tier",
         "35 iterator kinds (all three bitvector types incl. positioned iterators, multisets, integer vectors incl. mapped, wavelet matrix) are driven with generated histories of next/next_back/nth/nth_back/clone; every return value and every len() is compared with a deque model, the rest is drained, exhaustion is re-checked. All 5461 sequences of length <= 6 on all 127 bit strings of length <= 6 for the double-ended iterators.",
         "Structures are small so that every iterator is drained completely; back calls only where DoubleEndedIterator is implemented.", "DESIGN.md §3 C10"),
 "C11": ("exploration", "metamorphic/differential property testing: conversion chains and builder decompositions must all give equal, byte-identical structures + enumeration of all tiny strings x type pairs",
         "For generated bit sequences, the end of every conversion chain (From / copy_bit_vec, length 1..3) must hold the source's bits and be == and byte-identical to the target type's own builder output built by another route; all run-length builder decompositions of one run list must agree.",
         "Sets only (multisets not claimed); plain bitvectors compared without supports.", "DESIGN.md §3 C11"),
 "C12": ("exploration", "differential property testing of the file writers against the in-memory serialization over generated widths, buffer sizes, push histories and endings; coverage-guided libFuzzer+ASan campaign of the same check in the thorough tier",
         "Files left by IntVectorWriter / RawVectorWriter for generated (width, buffer size incl. 0 / sub-item / exact-data, push and extend history, ending in close / close twice / drop / close then drop) must be byte-identical to serializing the equivalent in-memory vector; len() tracks pushes; second close is a no-op.",
         "A raw writer with a parent header is closed through close_with_header as a parent would; flush bookkeeping only labels classes.", "DESIGN.md §3 C12"),
 "C15": ("exploration", "property-based testing against a sorted-Vec multiset model + complete small-scope enumeration + accept/reject differential for try_from_iter",
         "Multiset sparse vectors (duplicates at 0, at the last position, at bucket edges, long duplicate runs, overfull lists, huge universes) built by four routes are compared with a sorted-Vec model for every present-value query and for the set-bit and bit iterators in both directions and generated interleavings; try_from_iter must accept exactly the non-decreasing sequences.",
         "Zero-side queries are not asserted (documented as not working for multisets).", "DESIGN.md §3 C15"),
 "C16": ("exploration", "model-based (stateful) property testing of builder call histories against model state machines, with a shadow builder that only sees accepted calls; coverage-guided libFuzzer+ASan campaign of the same interpreter in the thorough tier",
         "Generated histories of valid and invalid calls on SparseBuilder and RLBuilder are interpreted against models: acceptance must match, every observer must equal the model after every call, conversion succeeds iff allowed, and the resulting vector must hold exactly the accepted positions and equal the vector of a shadow builder that never saw the rejected calls.",
         "Unsafe *_unchecked calls only inside their contracts; try_set(start<len, 0) may answer either way.", "DESIGN.md §3 C16"),
 "C18": ("exploration", "property-based testing of map/drop cycles with a process-level monitor (/proc/self/maps, std unsafe-precondition checks) in per-shard worker processes",
         "For generated file sizes (0, sub-page, page multiples +-8, not divisible by 8, missing, a directory, through a symbolic link), modes and cycle counts: refusal where documented, the slice equals the file over its whole length, /proc/self/maps lists the mapping while alive and no byte of it after drop, writes through a mutable map reach the file.",
         "Linux /proc only; OS refusals provoked with an empty file and a directory.", "DESIGN.md §3 C18"),
 "C13": ("exploration", "round-trip/differential property testing of mapped views against loaded values over generated multi-structure files, with enumeration of bad offsets and element-granular truncations",
         "Files of 1..6 concatenated mappable structures (both mapping modes) are mapped structure by structure: content must equal the in-memory value through every accessor, views must tile the file exactly, six out-of-file offsets per structure must be refused with Err (not a panic), and for every truncation the cut structure must be refused while earlier ones still map.",
         "Views are only requested at structure starts or outside the file; large files are truncated around structure boundaries and at generated points.", "DESIGN.md §3 C13"),
 "C14": ("fault_enumeration", "fault injection with complete enumeration of fault points per generated structure: every strict prefix for load/skip_option, every write budget for serialize, every element truncation for mapped views, every RLIMIT_FSIZE value for the file writers",
         "For each generated structure every fault point of each kind is executed against an outcome predicate (Err, never a panic or a value; the sink's own error with a prefix written; refusal of cut views; writers and serialize_to never report success for an incomplete file, also after a caught push panic or a failed close). Cases run in single-threaded worker processes because the file-size limit is process wide.",
         "Faults are permanent within one execution; file-size limits stand in for other write errors; structures above 3000 bytes are cut at element boundaries +-1.", "DESIGN.md §3 C14"),
 "C19": ("exploration", "model-based property testing over enable/serialize/load/clone histories with a support-set model, plus differential loading of support-stripped composite files and skip_option position checks",
         "Histories over the plain bitvector's support structures are interpreted against a set model (supports reported, bits unchanged, enabled queries correct after every step, load preserves exactly the written subset, final value canonical); sparse vectors / wavelet matrices / cores re-encoded with none or with a generated subset of the embedded support structures per bitvector (also wrapped in an Option) must load and answer the query plan like the original; skip_option must stop exactly at a marker after any optional value.",
         "Support stripping relies on the harness's document-only codec; only enabled queries are asked.", "DESIGN.md §3 C19"),
 "C17": ("exploration", "complete enumeration of (offset,width) pairs and mask arguments + property-based testing of in-word select and helpers against bit-by-bit references, in three build configurations (portable and BMI2 select)",
         "read_int/write_int are executed for every (offset 0..191, width 1..64) with 9 value/background combinations and compared bit by bit (field and all other bits); select for every rank of structured and generated words under both the portable and the PDEP implementation; masks for all n; bit_len/reverse_low/rounding helpers against u128 arithmetic.",
         "Trusts the bit-by-bit reference loops; values and words are sampled (offset/width/mask spaces are complete); rounding helpers only on their documented non-overflowing domains.", "DESIGN.md §3 C17"),
 "C02": ("exploration", "property-based testing against a sorted-set reference model that also covers universes up to 2^64-1 (proptest, width-directed generators) + complete small-scope enumeration",
         "Sparse vectors built by 8 public routes from generated (n, positions) - directed at every low width 1..63, bucket edges, dense clusters that give the high bitvector long select superblocks, universes to 2^64-1 - are compared query by query with a binary-search model; all routes must give equal vectors; all subsets of universes up to 10 (13) elements are enumerated with every argument.",
         "Trusts the sorted-set model; nearly empty sets are explored only where the bucket array (n/2^w bits) can be allocated (<= 2^27 bits); large universes are queried at edges/neighbourhoods/generated arguments.", "DESIGN.md §3 C02"),
 "C03": ("exploration", "property-based testing against a run-list reference model (prefix sums, usize::MAX-long vectors) + complete small-scope enumeration; coverage-guided libFuzzer+ASan campaign of the same check in the thorough tier",
         "Run-length vectors built through the builder (runs split into adjacent pieces, unchecked variants, per-bit, with/without set_len) or by conversion are compared query by query and run by run (run_iter with offset/rank/rank_zero) with a run-list model, with generators directed at 1..22 code units per value, 1/8/9/10/100+ blocks, blocks closed early, a first block without unset bits, and lengths beyond 2^63.",
         "Trusts the run-list model and the harness's block-packing simulation used only for class labels; long vectors are queried at run edges and sampled arguments.", "DESIGN.md §3 C03"),
 "C04": ("exploration", "property-based testing against a naive Vec<u64> reference (positions per value, stable sort by reversed bits) + complete small-scope enumeration",
         "Wavelet matrices from all five item types over widths 1..16 (core: 1..64), lengths 0/1/2^k/.., seven value distributions incl. single-symbol, missing symbols and outliers, are compared with a naive model for every (index, rank, value) incl. absent and out-of-alphabet values and extreme arguments; the core mapping is compared with the stable sort by reversed bits.",
         "Trusts the naive model; alphabets limited to 2^16 for the matrix; vectors above 300 items use sampled indexes.", "DESIGN.md §3 C04"),
 "C05": ("exploration", "model-based (stateful) property testing: generated operation histories interpreted against a Vec<bool> / (width, Vec<u64>) model with full state comparison after every step; coverage-guided libFuzzer+ASan campaign of the same interpreter in the thorough tier",
         "Every step of every generated history over RawVector and IntVector is followed by a comparison of length, every backing word (so stale bits beyond the end are visible), count_ones, reads, and equality + byte-identical serialization with vectors rebuilt from the model by two other routes.",
         "Trusts the bit-by-bit model; vectors stay small (<= ~25k bits / 300 items) so that complete comparison after each step is affordable, except 3 (9 thorough) periodic vectors beyond 2^32 bits per configuration that are compared with closed formulas; capacity is not asserted.", "DESIGN.md §3 C05"),
 "C07": ("exploration", "differential testing against an independent codec written only from SERIALIZATION.md (decoder + encoder), both directions, plus byte identity where the document leaves no choice",
         "The library's bytes for generated structures of every documented type are decoded by the harness's own codec and must give the generator's model content while satisfying the document's requirements; the codec's own encodings (supports absent, any admissible sparse low width, any sufficient sample width) and the library's files with any subset of supports kept per embedded bitvector must load and answer every query per the reference models; codec bytes must equal library bytes with supports stripped wherever the document leaves no choice, which exposes changes made symmetrically to serialize and load.",
         "Trusts the harness codec as a faithful reading of the document; support structures are opaque; sparse w=64 and multiset loading are excluded (see assumptions).", "DESIGN.md §3 C07"),
 "C06": ("exploration", "round-trip property testing over values of every Serialize type (type-erased), concatenated streams, short-read readers",
         "1..6 generated values of every serializable type (incl. all 8 support subsets, nested options, huge sparse universes, multisets) are written back to back; sizes must be exact, header+body = serialize, and sequential loading through a reader that returns short reads must give equal values that answer a fixed query plan identically and must consume exactly each value's bytes; file variants agree.",
         "Equality is the library's own PartialEq plus a fixed query-plan digest; Option nesting to depth 2.", "DESIGN.md §3 C06"),

}

NOT_YET = "check not implemented yet in this revision of the framework (work in progress; see DESIGN.md for the planned design)"

def main():
    props = [json.loads(l) for l in open(os.path.join(VERIF, "properties.jsonl"))]
    checks = []
    na = []
    for p in props:
        pid = p["id"]
        if pid in CHECKS:
            cat, tech, text, note, ref = CHECKS[pid]
            checks.append({
                "property_id": pid,
                "quick_cmd": "./check %s --tier quick" % pid,
                "thorough_cmd": "./check %s --tier thorough" % pid,
                "evidence_file": "/verif/evidence/%s.json" % pid,
                "replay_cmd_template": "./check %s --replay {path}" % pid,
                "engine": "sds-verif",
                "level_claimed": {"category": cat, "text": text, "design_ref": ref},
                "level_note": note,
                "technique": tech,
            })
        else:
            na.append({"property_id": pid, "reason": NOT_YET})
    manifest = {
        "version": 1,
        "setup_cmd": "./check --setup",
        "hooks": {
            "guard": "simple_sds_verif",
            "enable": "no source hooks are used: the checks build /repo unmodified as a cargo path dependency of /verif/harness under three profiles (overflow checks on; release arithmetic + std unsafe-precondition checks with and without target-cpu=native). The guard name is reserved only.",
            "baseline_off_cmd": "cd /repo && cargo test --workspace --no-fail-fast --offline",
            "source_commits": [],
            "add_only": True,
        },
        "engines": [
            {"name": "sds-verif", "path": "/verif/harness", "serves_properties": sorted(CHECKS), "kind_free_text": "Rust binary: seeded proptest TestRunner per shard (16 shards), complete small-scope enumeration, reference models, optional worker-process isolation for crash monitors, shrinking to a JSON replay file; driven by /verif/check (python) which builds the configurations from /repo's working tree and merges evidence"},
        ],
        "checks": checks,
        "not_applicable": na,
        "notes": "Exit codes of every command: 0 held, 1 violation (VIOLATION line), 2 inconclusive/infrastructure. VERIF_SEED and VERIF_TIER are honoured. Genuine defects found and repaired are listed as 'fixed:' lines in /verif/KNOWN_FINDINGS.txt; there are no open findings.",
    }
    with open(os.path.join(VERIF, "MANIFEST.json"), "w") as f:
        json.dump(manifest, f, indent=1)
        f.write("\n")

if __name__ == "__main__":
    main()

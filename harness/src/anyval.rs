//! Values of every `Serialize` type behind one object-safe interface, and their generators.

use crate::gen::{bits_spec, BitsSpec};
use crate::model::Bits;
use crate::props::c02::{build_sparse, BigSet};
use crate::props::c03::{build_rl, Mag, Shape};
use crate::props::c04::{core_from, wm_from, Dist, Vals};
use crate::util::{hash_of, SplitMix};
use proptest::prelude::*;
use serde::{Deserialize, Serialize};
use simple_sds::bit_vector::rank_support::RankSupport;
use simple_sds::bit_vector::select_support::SelectSupport;
use simple_sds::bit_vector::{BitVector, Complement, Identity};
use simple_sds::int_vector::{IntVector, IntVectorMapper};
use simple_sds::ops::{Access, BitVec, PredSucc, Push, Rank, Select, SelectZero, Vector, VectorIndex};
use simple_sds::raw_vector::{AccessRaw, RawVector, RawVectorMapper};
use simple_sds::rl_vector::RLVector;
use simple_sds::serialize::{MappedBytes, MappedOption, MappedSlice, MappedStr, MemoryMap, MemoryMapped, Serialize as Sds};
use simple_sds::sparse_vector::{SparseBuilder, SparseVector};
use simple_sds::wavelet_matrix::wm_core::WMCore;
use simple_sds::wavelet_matrix::WaveletMatrix;
use std::convert::TryFrom;
use std::fmt::Debug;
use std::io::{self, Read, Write};
use std::path::Path;

//-----------------------------------------------------------------------------

/// Result of mapping a structure at an offset: (map_offset, map_len) or a description of a content mismatch.
pub type MapResult = Result<(usize, usize), String>;

/// Per-type behaviour that the blanket `Erased` implementation needs.
pub trait Kind: Sds + PartialEq + Debug + Sized + 'static {
    const NAME: &'static str;
    const IS_OPTION: bool = false;
    /// digest of the answers to a fixed query plan (so that "answers every query as x does" is checked beyond `==`)
    fn probe(&self) -> u64;
    /// Map the structure at `offset` and compare the view with `self`. `None`: this type has no mapped counterpart.
    /// `Some(Err(io))`: the view was refused. `Some(Ok(Err(msg)))`: the view's content differs.
    fn map_check(&self, _map: &MemoryMap, _offset: usize) -> Option<io::Result<MapResult>> {
        None
    }
}

fn sample_args(n: usize, count: usize) -> Vec<usize> {
    let mut rng = SplitMix::new(0x5eed ^ n as u64);
    let mut v: Vec<usize> = vec![0, 1, n / 2, n.saturating_sub(1), n, n.saturating_add(1)];
    for _ in 0..count {
        v.push(rng.below((n as u64).saturating_add(1)) as usize);
    }
    v
}

macro_rules! plain_kind {
    ($t:ty, $name:expr) => {
        impl Kind for $t {
            const NAME: &'static str = $name;
            fn probe(&self) -> u64 {
                hash_of(self)
            }
        }
    };
}

plain_kind!(usize, "usize");
plain_kind!(u64, "u64");
plain_kind!((u64, u64), "(u64,u64)");

fn slice_view<'a, T: simple_sds::serialize::Serializable + PartialEq + Debug>(v: &[T], map: &'a MemoryMap, offset: usize) -> io::Result<MapResult> {
    let view = MappedSlice::<T>::new(map, offset)?;
    if view.len() != v.len() || view.is_empty() != v.is_empty() {
        return Ok(Err(format!("MappedSlice len {} != {}", view.len(), v.len())));
    }
    let s: &[T] = view.as_ref();
    if s != v {
        return Ok(Err("MappedSlice content differs (as_ref)".into()));
    }
    for i in 0..v.len() {
        if view[i] != v[i] {
            return Ok(Err(format!("MappedSlice[{}] differs", i)));
        }
    }
    if view.iter().count() != v.len() || !view.iter().zip(v.iter()).all(|(a, b)| a == b) {
        return Ok(Err("MappedSlice iteration (Deref) differs".into()));
    }
    Ok(Ok((view.map_offset(), view.map_len())))
}

impl Kind for Vec<u64> {
    const NAME: &'static str = "Vec<u64>";
    fn probe(&self) -> u64 {
        hash_of(self)
    }
    fn map_check(&self, map: &MemoryMap, offset: usize) -> Option<io::Result<MapResult>> {
        Some(slice_view(self, map, offset))
    }
}

impl Kind for Vec<usize> {
    const NAME: &'static str = "Vec<usize>";
    fn probe(&self) -> u64 {
        hash_of(self)
    }
    fn map_check(&self, map: &MemoryMap, offset: usize) -> Option<io::Result<MapResult>> {
        Some(slice_view(self, map, offset))
    }
}

impl Kind for Vec<(u64, u64)> {
    const NAME: &'static str = "Vec<(u64,u64)>";
    fn probe(&self) -> u64 {
        hash_of(self)
    }
    fn map_check(&self, map: &MemoryMap, offset: usize) -> Option<io::Result<MapResult>> {
        Some(slice_view(self, map, offset))
    }
}

impl Kind for Vec<u8> {
    const NAME: &'static str = "Vec<u8>";
    fn probe(&self) -> u64 {
        hash_of(self)
    }
    fn map_check(&self, map: &MemoryMap, offset: usize) -> Option<io::Result<MapResult>> {
        let run = || -> io::Result<MapResult> {
            let view = MappedBytes::new(map, offset)?;
            if view.len() != self.len() || view.is_empty() != self.is_empty() {
                return Ok(Err(format!("MappedBytes len {} != {}", view.len(), self.len())));
            }
            let s: &[u8] = view.as_ref();
            if s != self.as_slice() {
                return Ok(Err("MappedBytes content differs".into()));
            }
            for i in 0..self.len() {
                if view[i] != self[i] {
                    return Ok(Err(format!("MappedBytes[{}] differs", i)));
                }
            }
            Ok(Ok((view.map_offset(), view.map_len())))
        };
        Some(run())
    }
}

impl Kind for String {
    const NAME: &'static str = "String";
    fn probe(&self) -> u64 {
        hash_of(self)
    }
    fn map_check(&self, map: &MemoryMap, offset: usize) -> Option<io::Result<MapResult>> {
        let run = || -> io::Result<MapResult> {
            let view = MappedStr::new(map, offset)?;
            if view.len() != self.len() || view.is_empty() != self.is_empty() {
                return Ok(Err(format!("MappedStr len {} != {}", view.len(), self.len())));
            }
            let s: &str = view.as_ref();
            if s != self.as_str() || &*view != self.as_str() {
                return Ok(Err("MappedStr content differs".into()));
            }
            Ok(Ok((view.map_offset(), view.map_len())))
        };
        Some(run())
    }
}

impl Kind for RawVector {
    const NAME: &'static str = "RawVector";
    fn probe(&self) -> u64 {
        let w: &[u64] = self.as_ref();
        hash_of(&(self.len(), w, self.count_ones()))
    }
    fn map_check(&self, map: &MemoryMap, offset: usize) -> Option<io::Result<MapResult>> {
        let run = || -> io::Result<MapResult> {
            let view = RawVectorMapper::new(map, offset)?;
            if view.len() != self.len() || view.is_empty() != self.is_empty() {
                return Ok(Err(format!("RawVectorMapper len {} != {}", view.len(), self.len())));
            }
            if view.count_ones() != self.count_ones() {
                return Ok(Err("RawVectorMapper count_ones differs".into()));
            }
            if view.is_mutable() {
                return Ok(Err("RawVectorMapper claims to be mutable".into()));
            }
            let words: &[u64] = self.as_ref();
            for (i, &w) in words.iter().enumerate() {
                if view.word(i) != w || unsafe { view.word_unchecked(i) } != w {
                    return Ok(Err(format!("RawVectorMapper word {} differs", i)));
                }
            }
            let inner: &MappedSlice<u64> = view.as_ref();
            if inner.len() != words.len() {
                return Ok(Err("RawVectorMapper inner slice length differs".into()));
            }
            let n = self.len();
            if n > 0 {
                for i in sample_args(n - 1, 40) {
                    let i = i.min(n - 1);
                    if view.bit(i) != self.bit(i) {
                        return Ok(Err(format!("RawVectorMapper bit {} differs", i)));
                    }
                    for w in [(i % 64 + 1).min(n - i), 64usize.min(n - i), 33usize.min(n - i)] {
                        if unsafe { view.int(i, w) } != unsafe { self.int(i, w) } {
                            return Ok(Err(format!("RawVectorMapper int({}, {}) differs", i, w)));
                        }
                    }
                }
            }
            Ok(Ok((view.map_offset(), view.map_len())))
        };
        Some(run())
    }
}

impl Kind for IntVector {
    const NAME: &'static str = "IntVector";
    fn probe(&self) -> u64 {
        let items: Vec<u64> = self.iter().collect();
        hash_of(&(self.len(), self.width(), items))
    }
    fn map_check(&self, map: &MemoryMap, offset: usize) -> Option<io::Result<MapResult>> {
        let run = || -> io::Result<MapResult> {
            let view = IntVectorMapper::new(map, offset)?;
            if view.len() != self.len() || view.width() != self.width() || view.is_empty() != self.is_empty() {
                return Ok(Err(format!("IntVectorMapper len/width {}/{} != {}/{}", view.len(), view.width(), self.len(), self.width())));
            }
            if view.is_mutable() {
                return Ok(Err("IntVectorMapper claims to be mutable".into()));
            }
            for i in 0..self.len() {
                if view.get(i) != self.get(i) {
                    return Ok(Err(format!("IntVectorMapper item {} differs", i)));
                }
            }
            for i in [self.len(), self.len() + 1, usize::MAX] {
                if view.get_or(i, 99) != 99 {
                    return Ok(Err(format!("IntVectorMapper get_or({}) past the end", i)));
                }
            }
            let a: Vec<u64> = view.iter().collect();
            let b: Vec<u64> = self.iter().collect();
            if a != b || view.iter().len() != self.len() {
                return Ok(Err("IntVectorMapper iter differs".into()));
            }
            let raw: &RawVectorMapper = view.as_ref();
            if raw.len() != self.len() * self.width() {
                return Ok(Err("IntVectorMapper raw length differs".into()));
            }
            Ok(Ok((view.map_offset(), view.map_len())))
        };
        Some(run())
    }
}

fn probe_bitvec<'a, T: BitVec<'a> + Rank<'a> + Select<'a> + SelectZero<'a> + PredSucc<'a>>(bv: &'a T, rank: bool, select: bool, select_zero: bool, zero_side: bool) -> u64 {
    let n = bv.len();
    let mut acc: Vec<usize> = vec![n, bv.count_ones(), bv.count_zeros()];
    for i in sample_args(n, 48) {
        if i < n {
            acc.push(bv.get(i) as usize);
        }
        if rank {
            acc.push(bv.rank(i));
        }
        if select {
            acc.push(bv.select(i).unwrap_or(usize::MAX));
        }
        if select_zero && zero_side {
            acc.push(bv.select_zero(i).unwrap_or(usize::MAX));
        }
        if rank && select {
            acc.push(bv.predecessor(i).next().map(|x| x.1).unwrap_or(usize::MAX));
            acc.push(bv.successor(i).next().map(|x| x.1).unwrap_or(usize::MAX));
        }
    }
    let head: Vec<(usize, usize)> = bv.one_iter().take(32).collect();
    hash_of(&(acc, head))
}

impl Kind for BitVector {
    const NAME: &'static str = "BitVector";
    fn probe(&self) -> u64 {
        probe_bitvec(self, self.supports_rank(), self.supports_select(), self.supports_select_zero(), true)
    }
}

impl Kind for RankSupport {
    const NAME: &'static str = "RankSupport";
    fn probe(&self) -> u64 {
        self.blocks() as u64
    }
}

impl Kind for SelectSupport<Identity> {
    const NAME: &'static str = "SelectSupport<Identity>";
    fn probe(&self) -> u64 {
        hash_of(&(self.superblocks(), self.long_superblocks(), self.short_superblocks()))
    }
}

impl Kind for SelectSupport<Complement> {
    const NAME: &'static str = "SelectSupport<Complement>";
    fn probe(&self) -> u64 {
        hash_of(&(self.superblocks(), self.long_superblocks(), self.short_superblocks()))
    }
}

impl Kind for SparseVector {
    const NAME: &'static str = "SparseVector";
    fn probe(&self) -> u64 {
        let multi = self.is_multiset();
        probe_bitvec(self, true, true, true, !multi)
    }
}

impl Kind for RLVector {
    const NAME: &'static str = "RLVector";
    fn probe(&self) -> u64 {
        let runs: Vec<(usize, usize)> = self.run_iter().take(64).collect();
        hash_of(&(probe_bitvec(self, true, true, true, true), runs))
    }
}

impl Kind for WMCore {
    const NAME: &'static str = "WMCore";
    fn probe(&self) -> u64 {
        let n = self.len();
        let mut acc: Vec<(usize, u64)> = vec![(n, self.width() as u64)];
        for i in sample_args(n, 24) {
            if let Some((p, v)) = self.map_down(i) {
                acc.push((p, v));
                acc.push((self.map_up_with(p, v).unwrap_or(usize::MAX), 0));
            }
            acc.push((self.map_down_with(i, i as u64), 1));
        }
        hash_of(&acc)
    }
}

impl Kind for WaveletMatrix {
    const NAME: &'static str = "WaveletMatrix";
    fn probe(&self) -> u64 {
        let n = self.len();
        let mut acc: Vec<(usize, u64)> = vec![(n, self.width() as u64)];
        for i in sample_args(n, 24) {
            if i < n {
                let v = self.get(i);
                acc.push((self.rank(i, v), v));
                acc.push((self.select(self.rank(i, v), v).unwrap_or(usize::MAX), v));
                acc.push((self.successor(i, v).next().map(|x| x.1).unwrap_or(usize::MAX), v));
            }
            acc.push((self.rank(i, (i % 5) as u64), 2));
            acc.push((self.contains(i as u64) as usize, 3));
        }
        hash_of(&acc)
    }
}

impl<T: Kind> Kind for Option<T> {
    const NAME: &'static str = "Option";
    const IS_OPTION: bool = true;
    fn probe(&self) -> u64 {
        match self {
            None => 0,
            Some(v) => v.probe().wrapping_add(1),
        }
    }
    fn map_check(&self, map: &MemoryMap, offset: usize) -> Option<io::Result<MapResult>> {
        mapped_option_check(self, map, offset)
    }
}

/// MappedOption<V> exists for the mapped counterparts of T; dispatch on the concrete T through `Any`.
fn mapped_option_check<T: Kind>(value: &Option<T>, map: &MemoryMap, offset: usize) -> Option<io::Result<MapResult>> {
    use std::any::Any;
    let any: &dyn Any = value;
    macro_rules! try_type {
        ($t:ty, $view:ty) => {
            if let Some(v) = any.downcast_ref::<Option<$t>>() {
                let run = || -> io::Result<MapResult> {
                    let view = MappedOption::<$view>::new(map, offset)?;
                    if view.is_some() != v.is_some() || view.is_none() != v.is_none() || view.as_ref().is_some() != v.is_some() {
                        return Ok(Err(format!("MappedOption presence {} != {}", view.is_some(), v.is_some())));
                    }
                    if let Some(inner) = v {
                        // the inner view must tile inside the option and expose the same content
                        let inner_view: &$view = view.unwrap();
                        match Kind::map_check(inner, map, offset + 1) {
                            Some(Ok(Ok((o, l)))) => {
                                if o != offset + 1 || inner_view.map_offset() != o || inner_view.map_len() != l || l + 1 != view.map_len() {
                                    return Ok(Err(format!("MappedOption inner view at ({}, {}) vs option ({}, {})", o, l, view.map_offset(), view.map_len())));
                                }
                            }
                            Some(Ok(Err(m))) => return Ok(Err(format!("inside MappedOption: {}", m))),
                            Some(Err(e)) => return Err(e),
                            None => {}
                        }
                    } else if view.map_len() != 1 {
                        return Ok(Err(format!("absent MappedOption has map_len {}", view.map_len())));
                    }
                    Ok(Ok((view.map_offset(), view.map_len())))
                };
                return Some(run());
            }
        };
    }
    try_type!(Vec<u64>, MappedSlice<u64>);
    try_type!(Vec<usize>, MappedSlice<usize>);
    try_type!(Vec<(u64, u64)>, MappedSlice<(u64, u64)>);
    try_type!(Vec<u8>, MappedBytes);
    try_type!(String, MappedStr);
    try_type!(RawVector, RawVectorMapper);
    try_type!(IntVector, IntVectorMapper);
    None
}

//-----------------------------------------------------------------------------

/// Object-safe view of any serializable value.
pub trait Erased {
    fn type_name(&self) -> String;
    fn is_option(&self) -> bool;
    fn ser(&self, w: &mut dyn Write) -> io::Result<()>;
    fn ser_header(&self, w: &mut dyn Write) -> io::Result<()>;
    fn ser_body(&self, w: &mut dyn Write) -> io::Result<()>;
    fn size_elems(&self) -> usize;
    fn size_bytes(&self) -> usize;
    /// load a value of the same type
    fn load_same(&self, r: &mut dyn Read) -> io::Result<Box<dyn Erased>>;
    fn eq_dyn(&self, other: &dyn Erased) -> bool;
    fn probe(&self) -> u64;
    fn debug(&self) -> String;
    fn to_file(&self, path: &Path) -> io::Result<()>;
    fn from_file_same(&self, path: &Path) -> io::Result<Box<dyn Erased>>;
    /// the library's own public round-trip self-test `serialize::test` (panics if size or content do not survive)
    fn lib_selftest(&self, name: &str);
    fn map_check(&self, map: &MemoryMap, offset: usize) -> Option<io::Result<MapResult>>;
    fn as_any(&self) -> &dyn std::any::Any;
}

impl<T: Kind> Erased for T {
    fn type_name(&self) -> String {
        std::any::type_name::<T>().replace("simple_sds::", "").replace("alloc::vec::", "").replace("alloc::string::", "").replace("core::option::", "")
    }
    fn is_option(&self) -> bool {
        T::IS_OPTION
    }
    fn ser(&self, w: &mut dyn Write) -> io::Result<()> {
        let mut w = w;
        self.serialize(&mut w)
    }
    fn ser_header(&self, w: &mut dyn Write) -> io::Result<()> {
        let mut w = w;
        self.serialize_header(&mut w)
    }
    fn ser_body(&self, w: &mut dyn Write) -> io::Result<()> {
        let mut w = w;
        self.serialize_body(&mut w)
    }
    fn size_elems(&self) -> usize {
        self.size_in_elements()
    }
    fn size_bytes(&self) -> usize {
        self.size_in_bytes()
    }
    fn load_same(&self, r: &mut dyn Read) -> io::Result<Box<dyn Erased>> {
        let mut r = r;
        let v = T::load(&mut r)?;
        Ok(Box::new(v))
    }
    fn eq_dyn(&self, other: &dyn Erased) -> bool {
        match other.as_any().downcast_ref::<T>() {
            Some(o) => self == o,
            None => false,
        }
    }
    fn probe(&self) -> u64 {
        Kind::probe(self)
    }
    fn debug(&self) -> String {
        crate::util::abbreviate(&format!("{:?}", self), 300)
    }
    fn to_file(&self, path: &Path) -> io::Result<()> {
        simple_sds::serialize::serialize_to(self, path)
    }
    fn from_file_same(&self, path: &Path) -> io::Result<Box<dyn Erased>> {
        let v: T = simple_sds::serialize::load_from(path)?;
        Ok(Box::new(v))
    }
    fn lib_selftest(&self, name: &str) {
        let _ = simple_sds::serialize::test(self, name, Some(self.size_in_elements()), true);
    }
    fn map_check(&self, map: &MemoryMap, offset: usize) -> Option<io::Result<MapResult>> {
        Kind::map_check(self, map, offset)
    }
    fn as_any(&self) -> &dyn std::any::Any {
        self
    }
}

//-----------------------------------------------------------------------------
// specifications (what proptest generates)

#[derive(Clone, Debug, Serialize, Deserialize, Hash)]
pub enum Leaf {
    Usize(u64),
    U64(u64),
    Pair(u64, u64),
    VecU64(Vec<u64>),
    VecUsize(Vec<u64>),
    VecPair(Vec<(u64, u64)>),
    Bytes(Vec<u8>),
    Str(String),
    Raw(BitsSpec),
    /// (width - 1, items)
    Int(u8, Vec<u64>),
    /// vectors left behind by an operation history (pops, resizes, ...): same logical content as a fresh vector, different past
    RawHist(Vec<crate::props::c05::RawOp>),
    IntHist(Vec<crate::props::c05::IntOp>),
    /// bits, support mask (1 rank, 2 select, 4 select_zero)
    BV(BitsSpec, u8),
    RS(BitsSpec),
    SS(BitsSpec),
    SZ(BitsSpec),
    Sparse(BitsSpec),
    SparseBig(BigSet),
    /// multiset: universe, non-decreasing values as increments
    SparseMulti(u16, Vec<u8>),
    RL(Shape, Option<Mag>),
    Core(Vals),
    WM(Vals),
}

/// 0 plain, 1 None, 2 Some(x), 3 Some(None), 4 Some(Some(x))
#[derive(Clone, Debug, Serialize, Deserialize, Hash)]
pub struct ValSpec {
    pub leaf: Leaf,
    pub opt: u8,
}

fn wrap<T: Kind>(v: T, opt: u8) -> Box<dyn Erased> {
    match opt % 5 {
        0 => Box::new(v),
        1 => Box::new(None::<T>),
        2 => Box::new(Some(v)),
        3 => Box::new(Some(None::<T>)),
        _ => Box::new(Some(Some(v))),
    }
}

pub fn raw_from_bits(b: &Bits) -> RawVector {
    crate::props::c01::raw_by_set_bit(b)
}

pub fn int_from(width: usize, items: &[u64]) -> IntVector {
    let mut iv = IntVector::new(width).expect("valid width");
    for &v in items {
        iv.push(v);
    }
    iv
}

pub fn multiset_values(universe: u16, incs: &[u8]) -> (usize, Vec<usize>) {
    let n = universe as usize + 1;
    let mut vals = Vec::new();
    let mut cur = 0usize;
    for &d in incs {
        cur = (cur + (d as usize % 4)).min(n - 1);
        vals.push(cur);
    }
    (n, vals)
}

pub fn build_multiset(n: usize, vals: &[usize]) -> SparseVector {
    let mut b = SparseBuilder::multiset(n, vals.len());
    for &v in vals {
        b.set(v);
    }
    SparseVector::try_from(b).expect("multiset builder is full")
}

impl ValSpec {
    pub fn build(&self) -> Box<dyn Erased> {
        let o = self.opt;
        match &self.leaf {
            Leaf::Usize(v) => wrap(*v as usize, o),
            Leaf::U64(v) => wrap(*v, o),
            Leaf::Pair(a, b) => wrap((*a, *b), o),
            Leaf::VecU64(v) => wrap(v.clone(), o),
            Leaf::VecUsize(v) => wrap(v.iter().map(|&x| x as usize).collect::<Vec<usize>>(), o),
            Leaf::VecPair(v) => wrap(v.clone(), o),
            Leaf::Bytes(v) => wrap(v.clone(), o),
            Leaf::Str(s) => wrap(s.clone(), o),
            Leaf::Raw(b) => wrap(raw_from_bits(&b.expand()), o),
            Leaf::Int(w, items) => wrap(int_from(*w as usize % 64 + 1, items), o),
            Leaf::RawHist(ops) => wrap(crate::props::c05::raw_by_history(ops).unwrap_or_else(|f| panic!("operation history failed: {}", f.msg)).0, o),
            Leaf::IntHist(ops) => wrap(crate::props::c05::int_by_history(ops).unwrap_or_else(|f| panic!("operation history failed: {}", f.msg)).0, o),
            Leaf::BV(b, mask) => {
                let mut bv = BitVector::from(raw_from_bits(&b.expand()));
                if mask & 1 != 0 {
                    bv.enable_rank();
                }
                if mask & 2 != 0 {
                    bv.enable_select();
                }
                if mask & 4 != 0 {
                    bv.enable_select_zero();
                }
                wrap(bv, o)
            }
            Leaf::RS(b) => {
                let bv = BitVector::from(raw_from_bits(&b.expand()));
                wrap(RankSupport::new(&bv), o)
            }
            Leaf::SS(b) => {
                let bv = BitVector::from(raw_from_bits(&b.expand()));
                wrap(SelectSupport::<Identity>::new(&bv), o)
            }
            Leaf::SZ(b) => {
                let bv = BitVector::from(raw_from_bits(&b.expand()));
                wrap(SelectSupport::<Complement>::new(&bv), o)
            }
            Leaf::Sparse(b) => {
                let bits = b.expand();
                wrap(build_sparse(bits.len, &bits.positions(), 0), o)
            }
            Leaf::SparseBig(s) => wrap(build_sparse(s.n, &s.positions(), 0), o),
            Leaf::SparseMulti(u, incs) => {
                let (n, vals) = multiset_values(*u, incs);
                wrap(build_multiset(n, &vals), o)
            }
            Leaf::RL(shape, tail) => {
                let (runs, end) = shape.runs();
                let n = tail.map(|t| end.saturating_add(t.value()));
                wrap(build_rl(n, &runs, &[], false, false), o)
            }
            Leaf::Core(v) => wrap(core_from(&v.expand(), 3), o),
            Leaf::WM(v) => {
                let vals: Vec<u64> = v.expand().into_iter().map(|x| x & 0xFFFF).collect();
                wrap(wm_from(&vals, 3).0, o)
            }
        }
    }

    pub fn is_trivial(&self) -> bool {
        // a bare integer or an empty/absent value is trivial for the serialization properties
        if self.opt % 5 == 1 || self.opt % 5 == 3 {
            return true;
        }
        match &self.leaf {
            Leaf::Usize(_) | Leaf::U64(_) | Leaf::Pair(_, _) => true,
            Leaf::VecU64(v) | Leaf::VecUsize(v) => v.is_empty(),
            Leaf::VecPair(v) => v.is_empty(),
            Leaf::Bytes(v) => v.is_empty(),
            Leaf::Str(s) => s.is_empty(),
            Leaf::Int(_, v) => v.is_empty(),
            Leaf::SparseMulti(_, v) => v.is_empty(),
            _ => false,
        }
    }

    pub fn type_tag(&self) -> String {
        let l = match &self.leaf {
            Leaf::Usize(_) => "usize",
            Leaf::U64(_) => "u64",
            Leaf::Pair(_, _) => "pair",
            Leaf::VecU64(_) => "Vec<u64>",
            Leaf::VecUsize(_) => "Vec<usize>",
            Leaf::VecPair(_) => "Vec<pair>",
            Leaf::Bytes(_) => "Vec<u8>",
            Leaf::Str(_) => "String",
            Leaf::Raw(_) => "RawVector",
            Leaf::Int(_, _) => "IntVector",
            Leaf::RawHist(_) => "RawVector(history)",
            Leaf::IntHist(_) => "IntVector(history)",
            Leaf::BV(_, m) => return format!("{}BitVector[supports={}]", ["", "None:", "Some:", "SomeNone:", "SomeSome:"][self.opt as usize % 5], m & 7),
            Leaf::RS(_) => "RankSupport",
            Leaf::SS(_) => "SelectSupport<Identity>",
            Leaf::SZ(_) => "SelectSupport<Complement>",
            Leaf::Sparse(_) => "SparseVector",
            Leaf::SparseBig(_) => "SparseVector(big)",
            Leaf::SparseMulti(_, _) => "SparseVector(multiset)",
            Leaf::RL(_, _) => "RLVector",
            Leaf::Core(_) => "WMCore",
            Leaf::WM(_) => "WaveletMatrix",
        };
        format!("{}{}", ["", "None:", "Some:", "SomeNone:", "SomeSome:"][self.opt as usize % 5], l)
    }

    /// only the kinds that have a memory-mapped counterpart
    pub fn is_mappable(&self) -> bool {
        matches!(self.leaf, Leaf::VecU64(_) | Leaf::VecUsize(_) | Leaf::VecPair(_) | Leaf::Bytes(_) | Leaf::Str(_) | Leaf::Raw(_) | Leaf::Int(_, _) | Leaf::RawHist(_) | Leaf::IntHist(_)) && self.opt % 5 <= 2
    }
}

fn small_string() -> BoxedStrategy<String> {
    prop_oneof![
        3 => "[ -~]{0,40}",
        2 => proptest::collection::vec(any::<char>(), 0..24).prop_map(|v| v.into_iter().collect::<String>()),
        1 => Just(String::new()),
    ]
    .boxed()
}

fn small_vals() -> BoxedStrategy<Vals> {
    let dist = prop_oneof![Just(Dist::Uniform), any::<u16>().prop_map(Dist::Single), Just(Dist::Skewed), Just(Dist::Pow2), any::<u64>().prop_map(Dist::Masked), Just(Dist::Outlier)];
    prop_oneof![
        2 => proptest::collection::vec(prop_oneof![0u64..4, 0u64..300], 0..40).prop_map(Vals::Explicit),
        3 => (0usize..200, 1u8..=12, dist, any::<u64>()).prop_map(|(l, w, d, s)| Vals::Recipe(l, w, d, s)),
    ]
    .boxed()
}

fn small_shape() -> BoxedStrategy<Shape> {
    let cycle = proptest::collection::vec((0u8..7, 1u8..8), 1..4);
    prop_oneof![
        3 => (crate::props::c03::mag(), proptest::collection::vec((crate::props::c03::mag(), crate::props::c03::mag()), 0..12), prop_oneof![3 => Just(0u16), 2 => 0u16..80, 1 => 250u16..400], cycle)
            .prop_map(|(first_gap, runs, many, cycle)| Shape::Generic { first_gap, runs, many, cycle }),
        2 => proptest::collection::vec(any::<bool>(), 0..200).prop_map(Shape::Bools),
    ]
    .boxed()
}

fn small_bigset() -> BoxedStrategy<BigSet> {
    (prop_oneof![1usize..100_000, (0u32..64).prop_map(|k| 1usize << k), Just(usize::MAX), any::<usize>().prop_map(|n| n.max(1))], proptest::collection::vec(any::<u64>(), 1..40), any::<bool>(), any::<bool>())
        .prop_map(|(n, raw, first, last)| BigSet { n, raw, runs: vec![], edges: vec![], first, last })
        .boxed()
}

/// Vectors whose serialized size sits on the block sizes that buffered I/O code likes (512 / 1024 / 2048 elements, 4096 / 8192
/// bytes), and next to them: an off-by-one in a block loop only shows at an exact multiple.
fn block_vec() -> BoxedStrategy<Vec<u64>> {
    (prop_oneof![Just(511usize), Just(512), Just(513), Just(1023), Just(1024), Just(1025), Just(1535), Just(1536), Just(2047), Just(2048)], any::<u64>())
        .prop_map(|(n, seed)| {
            let mut x = SplitMix::new(seed);
            (0..n).map(|_| x.next()).collect()
        })
        .boxed()
}

fn block_bytes() -> BoxedStrategy<Vec<u8>> {
    (prop_oneof![Just(4087usize), Just(4088), Just(4095), Just(4096), Just(4097), Just(8184), Just(8191), Just(8192), Just(8193)], any::<u64>())
        .prop_map(|(n, seed)| {
            let mut x = SplitMix::new(seed);
            (0..n).map(|_| x.next() as u8).collect()
        })
        .boxed()
}

/// Values of every serializable type; `max_bits` bounds the bit-sequence based structures.
pub fn leaf(max_bits: usize) -> BoxedStrategy<Leaf> {
    let bits = bits_spec(max_bits);
    let word = prop_oneof![any::<u64>(), 0u64..4, Just(u64::MAX)];
    prop_oneof![
        1 => word.clone().prop_map(Leaf::Usize),
        1 => word.clone().prop_map(Leaf::U64),
        1 => (any::<u64>(), any::<u64>()).prop_map(|(a, b)| Leaf::Pair(a, b)),
        2 => proptest::collection::vec(word.clone(), 0..40).prop_map(Leaf::VecU64),
        1 => block_vec().prop_map(Leaf::VecU64),
        1 => block_bytes().prop_map(Leaf::Bytes),
        1 => proptest::collection::vec(word.clone(), 0..40).prop_map(Leaf::VecUsize),
        2 => proptest::collection::vec((any::<u64>(), any::<u64>()), 0..20).prop_map(Leaf::VecPair),
        3 => proptest::collection::vec(any::<u8>(), 0..70).prop_map(Leaf::Bytes),
        3 => small_string().prop_map(Leaf::Str),
        3 => bits.clone().prop_map(Leaf::Raw),
        3 => (any::<u8>(), proptest::collection::vec(any::<u64>(), 0..80)).prop_map(|(w, v)| Leaf::Int(w, v)),
        2 => proptest::collection::vec(crate::props::c05::raw_op(), 0..40).prop_map(Leaf::RawHist),
        2 => proptest::collection::vec(crate::props::c05::int_op(), 0..40).prop_map(Leaf::IntHist),
        6 => (bits.clone(), 0u8..8).prop_map(|(b, m)| Leaf::BV(b, m)),
        1 => bits.clone().prop_map(Leaf::RS),
        1 => bits.clone().prop_map(Leaf::SS),
        1 => bits.clone().prop_map(Leaf::SZ),
        3 => bits.clone().prop_map(Leaf::Sparse),
        2 => small_bigset().prop_map(Leaf::SparseBig),
        1 => (any::<u16>(), proptest::collection::vec(any::<u8>(), 0..60)).prop_map(|(u, v)| Leaf::SparseMulti(u, v)),
        4 => (small_shape(), proptest::option::of(crate::props::c03::mag())).prop_map(|(s, t)| Leaf::RL(s, t)),
        2 => small_vals().prop_map(Leaf::Core),
        1 => (0usize..60, 13u8..=64, prop_oneof![Just(Dist::Uniform), Just(Dist::Pow2), Just(Dist::Outlier)], any::<u64>()).prop_map(|(l, w, d, s)| Leaf::Core(Vals::Recipe(l, w, d, s))),
        3 => small_vals().prop_map(Leaf::WM),
    ]
    .boxed()
}

pub fn val_spec(max_bits: usize) -> BoxedStrategy<ValSpec> {
    (leaf(max_bits), prop_oneof![6 => Just(0u8), 1 => Just(1u8), 3 => Just(2u8), 1 => Just(3u8), 2 => Just(4u8)]).prop_map(|(leaf, opt)| ValSpec { leaf, opt }).boxed()
}

/// Only the kinds that have a memory-mapped counterpart.
pub fn mappable_spec(max_bits: usize) -> BoxedStrategy<ValSpec> {
    let bits = bits_spec(max_bits);
    let word = prop_oneof![any::<u64>(), 0u64..4, Just(u64::MAX)];
    let leaf = prop_oneof![
        3 => proptest::collection::vec(word.clone(), 0..40).prop_map(Leaf::VecU64),
        1 => block_vec().prop_map(Leaf::VecU64),
        1 => block_bytes().prop_map(Leaf::Bytes),
        1 => proptest::collection::vec(word.clone(), 0..40).prop_map(Leaf::VecUsize),
        2 => proptest::collection::vec((any::<u64>(), any::<u64>()), 0..20).prop_map(Leaf::VecPair),
        3 => proptest::collection::vec(any::<u8>(), 0..70).prop_map(Leaf::Bytes),
        3 => small_string().prop_map(Leaf::Str),
        3 => bits.prop_map(Leaf::Raw),
        3 => (any::<u8>(), proptest::collection::vec(any::<u64>(), 0..80)).prop_map(|(w, v)| Leaf::Int(w, v)),
        2 => proptest::collection::vec(crate::props::c05::raw_op(), 0..40).prop_map(Leaf::RawHist),
        2 => proptest::collection::vec(crate::props::c05::int_op(), 0..40).prop_map(Leaf::IntHist),
    ];
    (leaf, prop_oneof![5 => Just(0u8), 2 => Just(1u8), 3 => Just(2u8)]).prop_map(|(leaf, opt)| ValSpec { leaf, opt }).boxed()
}

//! Reference models that share no code with the library: explicit bit sequences, sorted sets
//! (also for universes too large to materialise), run lists; and the generic bitvector checker.

use crate::engine::Fail;
use crate::util::hash_words;
use simple_sds::ops::{BitVec, PredSucc, Rank, Select, SelectZero};

//-----------------------------------------------------------------------------

/// An explicit bit sequence (reference representation, little-endian words, zero tail).
#[derive(Clone, Debug, PartialEq, Eq)]
pub struct Bits {
    pub len: usize,
    pub words: Vec<u64>,
}

impl Bits {
    pub fn zeros(len: usize) -> Bits {
        Bits { len, words: vec![0; (len + 63) / 64] }
    }
    pub fn filled(len: usize, value: bool) -> Bits {
        let mut b = Bits { len, words: vec![if value { !0 } else { 0 }; (len + 63) / 64] };
        b.fix_tail();
        b
    }
    pub fn fix_tail(&mut self) {
        let r = self.len % 64;
        if r != 0 {
            let last = self.words.len() - 1;
            self.words[last] &= (1u64 << r) - 1;
        }
    }
    pub fn from_bools(v: &[bool]) -> Bits {
        let mut b = Bits::zeros(v.len());
        for (i, x) in v.iter().enumerate() {
            if *x {
                b.words[i / 64] |= 1 << (i % 64);
            }
        }
        b
    }
    pub fn to_bools(&self) -> Vec<bool> {
        (0..self.len).map(|i| self.get(i)).collect()
    }
    pub fn from_positions(len: usize, ones: &[usize]) -> Bits {
        let mut b = Bits::zeros(len);
        for &p in ones {
            b.words[p / 64] |= 1 << (p % 64);
        }
        b
    }
    pub fn from_runs(len: usize, runs: &[(usize, usize)]) -> Bits {
        let mut b = Bits::zeros(len);
        for &(s, l) in runs {
            for p in s..s + l {
                b.words[p / 64] |= 1 << (p % 64);
            }
        }
        b
    }
    #[inline]
    pub fn get(&self, i: usize) -> bool {
        (self.words[i / 64] >> (i % 64)) & 1 == 1
    }
    #[inline]
    pub fn set(&mut self, i: usize, v: bool) {
        if v {
            self.words[i / 64] |= 1 << (i % 64);
        } else {
            self.words[i / 64] &= !(1 << (i % 64));
        }
    }
    pub fn push(&mut self, v: bool) {
        if self.len % 64 == 0 {
            self.words.push(0);
        }
        self.len += 1;
        let i = self.len - 1;
        self.set(i, v);
    }
    pub fn pop(&mut self) -> Option<bool> {
        if self.len == 0 {
            return None;
        }
        let v = self.get(self.len - 1);
        self.resize(self.len - 1, false);
        Some(v)
    }
    pub fn resize(&mut self, new_len: usize, fill: bool) {
        let old = self.len;
        self.words.resize((new_len + 63) / 64, 0);
        self.len = new_len;
        if new_len > old {
            for i in old..new_len {
                self.set(i, fill);
            }
        } else {
            self.fix_tail();
        }
    }
    /// read `width` bits starting at `offset` (little-endian), reference implementation
    pub fn read(&self, offset: usize, width: usize) -> u64 {
        let mut v = 0u64;
        for k in 0..width {
            if self.get(offset + k) {
                v |= 1u64 << k;
            }
        }
        v
    }
    pub fn write(&mut self, offset: usize, value: u64, width: usize) {
        for k in 0..width {
            self.set(offset + k, (value >> k) & 1 == 1);
        }
    }
    pub fn count_ones(&self) -> usize {
        self.words.iter().map(|w| w.count_ones() as usize).sum()
    }
    pub fn positions(&self) -> Vec<usize> {
        let mut out = Vec::with_capacity(self.count_ones());
        for (wi, &w) in self.words.iter().enumerate() {
            let mut w = w;
            while w != 0 {
                let t = w.trailing_zeros() as usize;
                out.push(wi * 64 + t);
                w &= w - 1;
            }
        }
        out
    }
    pub fn zero_positions(&self) -> Vec<usize> {
        let mut out = Vec::with_capacity(self.len - self.count_ones());
        for i in 0..self.len {
            if !self.get(i) {
                out.push(i);
            }
        }
        out
    }
    /// maximal runs of set bits as (start, length)
    pub fn runs(&self) -> Vec<(usize, usize)> {
        runs_of(&self.positions())
    }
    pub fn digest(&self) -> u64 {
        hash_words(self.len, &self.words)
    }
    pub fn complement(&self) -> Bits {
        let mut b = Bits { len: self.len, words: self.words.iter().map(|w| !w).collect() };
        b.fix_tail();
        b
    }
}

/// maximal runs of a strictly increasing position list
pub fn runs_of(ones: &[usize]) -> Vec<(usize, usize)> {
    let mut out: Vec<(usize, usize)> = Vec::new();
    for &p in ones {
        match out.last_mut() {
            Some((s, l)) if *s + *l == p => *l += 1,
            _ => out.push((p, 1)),
        }
    }
    out
}

//-----------------------------------------------------------------------------

/// Sorted (multi)set of positions in a universe `0..n`; answers every bitvector query by binary search,
/// so it also works for universes up to usize::MAX that cannot be materialised.
#[derive(Clone, Debug)]
pub struct SetModel {
    pub n: usize,
    pub ones: Vec<usize>,
}

/// What the generic checker needs from a reference model.
pub trait Model {
    fn n(&self) -> usize;
    fn m(&self) -> usize;
    fn zeros(&self) -> usize {
        self.n().saturating_sub(self.m())
    }
    fn get(&self, i: usize) -> bool;
    fn rank(&self, i: usize) -> usize;
    fn select(&self, r: usize) -> Option<usize>;
    fn select_zero(&self, r: usize) -> Option<usize>;
    fn predecessor(&self, v: usize) -> Option<(usize, usize)>;
    fn successor(&self, v: usize) -> Option<(usize, usize)>;
}

impl SetModel {
    pub fn new(n: usize, ones: Vec<usize>) -> SetModel {
        SetModel { n, ones }
    }
    pub fn from_bits(b: &Bits) -> SetModel {
        SetModel { n: b.len, ones: b.positions() }
    }
    pub fn runs(&self) -> Vec<(usize, usize)> {
        runs_of(&self.ones)
    }
}

impl Model for SetModel {
    fn n(&self) -> usize {
        self.n
    }
    fn m(&self) -> usize {
        self.ones.len()
    }
    fn get(&self, i: usize) -> bool {
        self.ones.binary_search(&i).is_ok()
    }
    fn rank(&self, i: usize) -> usize {
        self.ones.partition_point(|&p| p < i)
    }
    fn select(&self, r: usize) -> Option<usize> {
        self.ones.get(r).copied()
    }
    /// Only meaningful for sets (no duplicates).
    fn select_zero(&self, r: usize) -> Option<usize> {
        if r >= self.zeros() {
            return None;
        }
        // smallest k such that the number of zeros before ones[k] (= ones[k] - k) exceeds r
        let (mut lo, mut hi) = (0usize, self.ones.len());
        while lo < hi {
            let mid = lo + (hi - lo) / 2;
            if self.ones[mid] - mid > r {
                hi = mid;
            } else {
                lo = mid + 1;
            }
        }
        Some(r + lo)
    }
    /// (rank, position) of the last element <= v
    fn predecessor(&self, v: usize) -> Option<(usize, usize)> {
        let k = self.ones.partition_point(|&p| p <= v);
        if k == 0 {
            None
        } else {
            Some((k - 1, self.ones[k - 1]))
        }
    }
    /// (rank, position) of the first element >= v
    fn successor(&self, v: usize) -> Option<(usize, usize)> {
        let k = self.ones.partition_point(|&p| p < v);
        self.ones.get(k).map(|&p| (k, p))
    }
}

//-----------------------------------------------------------------------------

/// Maximal runs of set bits with prefix sums: a model for vectors with up to usize::MAX bits and set bits.
#[derive(Clone, Debug)]
pub struct RunModel {
    pub n: usize,
    /// maximal runs (start, len), sorted, non-adjacent
    pub runs: Vec<(usize, usize)>,
    /// number of set bits before each run
    pub cum: Vec<usize>,
    pub ones: usize,
}

impl RunModel {
    /// `runs` must be sorted and non-overlapping; adjacent runs are merged here.
    pub fn new(n: usize, runs: &[(usize, usize)]) -> RunModel {
        let mut merged: Vec<(usize, usize)> = Vec::new();
        for &(s, l) in runs {
            if l == 0 {
                continue;
            }
            match merged.last_mut() {
                Some((ps, pl)) if *ps + *pl == s => *pl += l,
                _ => merged.push((s, l)),
            }
        }
        let mut cum = Vec::with_capacity(merged.len());
        let mut ones = 0usize;
        for &(_, l) in &merged {
            cum.push(ones);
            ones += l;
        }
        RunModel { n, runs: merged, cum, ones }
    }
    fn zeros_before_run(&self, k: usize) -> usize {
        self.runs[k].0 - self.cum[k]
    }
}

impl Model for RunModel {
    fn n(&self) -> usize {
        self.n
    }
    fn m(&self) -> usize {
        self.ones
    }
    fn get(&self, i: usize) -> bool {
        let idx = self.runs.partition_point(|&(s, _)| s <= i);
        idx > 0 && i - self.runs[idx - 1].0 < self.runs[idx - 1].1
    }
    fn rank(&self, i: usize) -> usize {
        let idx = self.runs.partition_point(|&(s, _)| s < i);
        if idx == 0 {
            0
        } else {
            let (s, l) = self.runs[idx - 1];
            self.cum[idx - 1] + l.min(i - s)
        }
    }
    fn select(&self, r: usize) -> Option<usize> {
        if r >= self.ones {
            return None;
        }
        let idx = self.cum.partition_point(|&c| c <= r);
        let (s, _) = self.runs[idx - 1];
        Some(s + (r - self.cum[idx - 1]))
    }
    fn select_zero(&self, r: usize) -> Option<usize> {
        if r >= self.zeros() {
            return None;
        }
        // smallest k such that the number of zeros before run k exceeds r
        let (mut lo, mut hi) = (0usize, self.runs.len());
        while lo < hi {
            let mid = lo + (hi - lo) / 2;
            if self.zeros_before_run(mid) > r {
                hi = mid;
            } else {
                lo = mid + 1;
            }
        }
        let ones_before = if lo == self.runs.len() { self.ones } else { self.cum[lo] };
        Some(r + ones_before)
    }
    fn predecessor(&self, v: usize) -> Option<(usize, usize)> {
        let idx = self.runs.partition_point(|&(s, _)| s <= v);
        if idx == 0 {
            return None;
        }
        let (s, l) = self.runs[idx - 1];
        let pos = v.min(s + (l - 1));
        Some((self.cum[idx - 1] + (pos - s), pos))
    }
    fn successor(&self, v: usize) -> Option<(usize, usize)> {
        let idx = self.runs.partition_point(|&(s, l)| s + (l - 1) < v);
        if idx == self.runs.len() {
            return None;
        }
        let (s, _) = self.runs[idx];
        let pos = v.max(s);
        Some((self.cum[idx] + (pos - s), pos))
    }
}

//-----------------------------------------------------------------------------

/// Which arguments to ask.
#[derive(Clone, Debug, Default)]
pub struct Plan {
    pub idx: Vec<usize>,
    pub ranks: Vec<usize>,
    pub zranks: Vec<usize>,
    /// compare whole iterators when their length is at most this
    pub iter_limit: usize,
    /// do not assert anything about zeros (multisets)
    pub skip_zero_side: bool,
}

pub const EXTREMES: [usize; 6] = [1usize << 63, (1usize << 63) + 1, usize::MAX / 2, usize::MAX - 1, usize::MAX, 1usize << 32];

impl Plan {
    /// every argument in 0..=n+1 / 0..=m+1 plus extreme values
    pub fn all<M: Model + ?Sized>(model: &M) -> Plan {
        let n = model.n();
        let m = model.m();
        let mut idx: Vec<usize> = (0..=n.saturating_add(1)).collect();
        idx.extend_from_slice(&EXTREMES);
        idx.push(n.saturating_mul(2));
        let mut ranks: Vec<usize> = (0..=m + 1).collect();
        ranks.extend_from_slice(&EXTREMES);
        let mut zranks: Vec<usize> = (0..=model.zeros() + 1).collect();
        zranks.extend_from_slice(&EXTREMES);
        Plan { idx, ranks, zranks, iter_limit: usize::MAX, skip_zero_side: false }
    }

    /// boundary arguments (ends, structural edges, neighbourhoods of up to `k` set bits spread over the set) plus `extra`
    pub fn sampled<M: Model + ?Sized>(model: &M, k: usize, extra_idx: &[usize], extra_ranks: &[usize], iter_limit: usize) -> Plan {
        let n = model.n();
        let m = model.m();
        let mut idx: Vec<usize> = vec![0, 1, 2, 63, 64, 65, 511, 512, 513, 4095, 4096, 4097, 65535, 65536, 65537];
        for d in 0..3usize {
            idx.push(n.saturating_sub(d));
            idx.push(n.saturating_add(d));
        }
        idx.push(n.saturating_mul(2));
        idx.push(n / 2);
        idx.extend_from_slice(&EXTREMES);
        let mut ranks: Vec<usize> = vec![0, 1, 2, 63, 64, 65, 4095, 4096, 4097, 8191, 8192, 8193];
        for d in 0..3usize {
            ranks.push(m.saturating_sub(d));
            ranks.push(m.saturating_add(d));
        }
        ranks.push(m / 2);
        ranks.extend_from_slice(&EXTREMES);
        let z = model.zeros();
        let mut zranks: Vec<usize> = vec![0, 1, 2, 63, 64, 65, 4095, 4096, 4097, 8191, 8192, 8193];
        for d in 0..3usize {
            zranks.push(z.saturating_sub(d));
            zranks.push(z.saturating_add(d));
        }
        zranks.push(z / 2);
        zranks.extend_from_slice(&EXTREMES);
        if m > 0 && k > 0 {
            let step = (m / k).max(1);
            let mut r = 0;
            while r < m {
                let p = model.select(r).unwrap();
                idx.push(p.saturating_sub(1));
                idx.push(p);
                idx.push(p.saturating_add(1));
                ranks.push(r);
                // zero ranks around this position
                let zr = p - r.min(p);
                zranks.push(zr.saturating_sub(1));
                zranks.push(zr);
                r = match r.checked_add(step) {
                    Some(v) => v,
                    None => break,
                };
            }
            let p = model.select(m - 1).unwrap();
            idx.push(p.saturating_sub(1));
            idx.push(p);
            idx.push(p.saturating_add(1));
        }
        idx.extend_from_slice(extra_idx);
        ranks.extend_from_slice(extra_ranks);
        zranks.extend_from_slice(extra_ranks);
        idx.sort_unstable();
        idx.dedup();
        ranks.sort_unstable();
        ranks.dedup();
        zranks.sort_unstable();
        zranks.dedup();
        Plan { idx, ranks, zranks, iter_limit, skip_zero_side: false }
    }
}

fn fail<T>(name: &str, op: &str, msg: String) -> Result<T, Fail> {
    Err(Fail::new(format!("{}.{}", name, op), format!("{}::{}: {}", name, op, msg)))
}

macro_rules! expect {
    ($name:expr, $op:expr, $got:expr, $want:expr, $($arg:tt)*) => {{
        let got = $got;
        let want = $want;
        if got != want {
            return fail($name, $op, format!("{} = {:?}, model says {:?}", format!($($arg)*), got, want));
        }
    }};
}

/// For the types whose support is built in (sparse, run-length): supports_* are true and enable_* change nothing.
pub fn enable_builtin_supports<'a, T>(bv: &mut T, order: u8, name: &str) -> Result<(), Fail>
where
    T: BitVec<'a> + Rank<'a> + Select<'a> + SelectZero<'a> + PredSucc<'a>,
{
    if !(bv.supports_rank() && bv.supports_select() && bv.supports_select_zero() && bv.supports_pred_succ()) {
        return fail(name, "supports", "a support that is built in is reported as missing".to_string());
    }
    for k in 0..4u8 {
        match (k + order) % 4 {
            0 => bv.enable_rank(),
            1 => bv.enable_select(),
            2 => bv.enable_select_zero(),
            _ => bv.enable_pred_succ(),
        }
    }
    if !(bv.supports_rank() && bv.supports_select() && bv.supports_select_zero() && bv.supports_pred_succ()) {
        return fail(name, "supports", "a support is reported as missing after enable_*".to_string());
    }
    Ok(())
}

/// Compare every operation of a bitvector with the model for the arguments in the plan.
pub fn check_bitvec<'a, T, M>(bv: &'a T, model: &M, plan: &Plan, name: &str) -> Result<(), Fail>
where
    T: BitVec<'a> + Rank<'a> + Select<'a> + SelectZero<'a> + PredSucc<'a>,
    M: Model + ?Sized,
{
    let n = model.n();
    let m = model.m();
    expect!(name, "len", bv.len(), n, "len()");
    expect!(name, "is_empty", bv.is_empty(), n == 0, "is_empty()");
    expect!(name, "count_ones", bv.count_ones(), m, "count_ones()");
    expect!(name, "count_zeros", bv.count_zeros(), model.zeros(), "count_zeros()");

    for &i in &plan.idx {
        if i < n {
            expect!(name, "get", bv.get(i), model.get(i), "get({})", i);
        }
        expect!(name, "rank", bv.rank(i), model.rank(i), "rank({})", i);
        if i <= n && !plan.skip_zero_side {
            expect!(name, "rank_zero", bv.rank_zero(i), i - model.rank(i), "rank_zero({})", i);
        }
        let p = model.predecessor(i);
        let mut it = bv.predecessor(i);
        expect!(name, "predecessor", it.next(), p, "predecessor({}).next()", i);
        if let Some((r, _)) = p {
            // the iterator continues with consecutive ranks
            let want = model.select(r + 1).map(|q| (r + 1, q));
            expect!(name, "predecessor", it.next(), want, "predecessor({}) second item", i);
        }
        let s = model.successor(i);
        let mut it = bv.successor(i);
        expect!(name, "successor", it.next(), s, "successor({}).next()", i);
        if let Some((r, _)) = s {
            let want = model.select(r + 1).map(|q| (r + 1, q));
            expect!(name, "successor", it.next(), want, "successor({}) second item", i);
        }
    }

    for &r in &plan.ranks {
        let want = model.select(r);
        expect!(name, "select", bv.select(r), want, "select({})", r);
        let mut it = bv.select_iter(r);
        let want_len = m.saturating_sub(r);
        expect!(name, "select_iter", it.len(), want_len, "select_iter({}).len()", r);
        expect!(name, "select_iter", it.next(), want.map(|p| (r, p)), "select_iter({}).next()", r);
        if want.is_some() {
            let w2 = model.select(r + 1).map(|q| (r + 1, q));
            expect!(name, "select_iter", it.next(), w2, "select_iter({}) second item", r);
        }
    }

    if !plan.skip_zero_side {
        for &r in &plan.zranks {
            let want = model.select_zero(r);
            expect!(name, "select_zero", bv.select_zero(r), want, "select_zero({})", r);
            let mut it = bv.select_zero_iter(r);
            let want_len = model.zeros().saturating_sub(r);
            expect!(name, "select_zero_iter", it.len(), want_len, "select_zero_iter({}).len()", r);
            expect!(name, "select_zero_iter", it.next(), want.map(|p| (r, p)), "select_zero_iter({}).next()", r);
            if want.is_some() {
                let w2 = model.select_zero(r + 1).map(|q| (r + 1, q));
                expect!(name, "select_zero_iter", it.next(), w2, "select_zero_iter({}) second item", r);
            }
        }
    }

    // whole iterators
    if m <= plan.iter_limit {
        let mut it = bv.one_iter();
        expect!(name, "one_iter", it.len(), m, "one_iter().len()");
        for r in 0..m {
            let p = model.select(r).unwrap();
            let got = it.next();
            if got != Some((r, p)) {
                return fail(name, "one_iter", format!("item {} = {:?}, model says {:?}", r, got, Some((r, p))));
            }
        }
        expect!(name, "one_iter", it.next(), None, "one_iter() after the last item");
        expect!(name, "one_iter", it.len(), 0, "one_iter().len() at the end");
    }
    if !plan.skip_zero_side && n <= plan.iter_limit {
        let mut it = bv.zero_iter();
        expect!(name, "zero_iter", it.len(), model.zeros(), "zero_iter().len()");
        let mut r = 0usize;
        let mut next_one = 0usize;
        for i in 0..n {
            if next_one < m && model.select(next_one) == Some(i) {
                next_one += 1;
                continue;
            }
            let got = it.next();
            if got != Some((r, i)) {
                return fail(name, "zero_iter", format!("item {} = {:?}, model says {:?}", r, got, Some((r, i))));
            }
            r += 1;
        }
        expect!(name, "zero_iter", it.next(), None, "zero_iter() after the last item");
    }
    if n <= plan.iter_limit {
        let mut it = bv.iter();
        expect!(name, "iter", it.len(), n, "iter().len()");
        let mut next_one = 0usize;
        for i in 0..n {
            let mut want = false;
            while next_one < m && model.select(next_one) == Some(i) {
                want = true;
                next_one += 1;
            }
            let got = it.next();
            if got != Some(want) {
                return fail(name, "iter", format!("bit {} = {:?}, model says {:?}", i, got, Some(want)));
            }
        }
        expect!(name, "iter", it.next(), None, "iter() after the last bit");
    }
    Ok(())
}


//-----------------------------------------------------------------------------

/// A piecewise periodic set with closed-form answers: the universe is cut into zones, zone z = [start, end) holds the
/// positions start, start + k, start + 2k, ... (k = 0: no position). Needs no memory, so it models vectors beyond 2^32 bits.
#[derive(Clone, Debug)]
pub struct PeriodicModel {
    /// (start, end, period)
    pub zones: Vec<(usize, usize, usize)>,
    /// ones / zeros before each zone, plus the totals at the end
    cum_ones: Vec<usize>,
    cum_zeros: Vec<usize>,
}

impl PeriodicModel {
    /// zones given as (length, period)
    pub fn new(spec: &[(usize, usize)]) -> PeriodicModel {
        let mut zones = Vec::new();
        let mut cum_ones = vec![0usize];
        let mut cum_zeros = vec![0usize];
        let mut start = 0usize;
        for &(len, k) in spec {
            if len == 0 {
                continue;
            }
            let end = start + len;
            let ones = if k == 0 { 0 } else { (len + k - 1) / k };
            zones.push((start, end, k));
            cum_ones.push(cum_ones.last().unwrap() + ones);
            cum_zeros.push(cum_zeros.last().unwrap() + (len - ones));
            start = end;
        }
        PeriodicModel { zones, cum_ones, cum_zeros }
    }

    fn zone_of(&self, i: usize) -> Option<usize> {
        let z = self.zones.partition_point(|&(_, end, _)| end <= i);
        if z < self.zones.len() {
            Some(z)
        } else {
            None
        }
    }

    /// the set positions of zone `z`, for building the real vector
    pub fn zone_ones(&self, z: usize) -> impl Iterator<Item = usize> + '_ {
        let (start, end, k) = self.zones[z];
        let count = if k == 0 { 0 } else { (end - start + k - 1) / k };
        (0..count).map(move |j| start + j * k)
    }
}

impl Model for PeriodicModel {
    fn n(&self) -> usize {
        self.zones.last().map(|z| z.1).unwrap_or(0)
    }
    fn m(&self) -> usize {
        *self.cum_ones.last().unwrap()
    }
    fn get(&self, i: usize) -> bool {
        match self.zone_of(i) {
            Some(z) => {
                let (start, _, k) = self.zones[z];
                k > 0 && (i - start) % k == 0
            }
            None => false,
        }
    }
    fn rank(&self, i: usize) -> usize {
        match self.zone_of(i) {
            Some(z) => {
                let (start, _, k) = self.zones[z];
                self.cum_ones[z] + if k == 0 { 0 } else { (i - start + k - 1) / k }
            }
            None => self.m(),
        }
    }
    fn select(&self, r: usize) -> Option<usize> {
        if r >= self.m() {
            return None;
        }
        let z = self.cum_ones.partition_point(|&c| c <= r) - 1;
        let (start, _, k) = self.zones[z];
        Some(start + (r - self.cum_ones[z]) * k)
    }
    fn select_zero(&self, r: usize) -> Option<usize> {
        if r >= self.zeros() {
            return None;
        }
        let z = self.cum_zeros.partition_point(|&c| c <= r) - 1;
        let (start, _, k) = self.zones[z];
        let q = r - self.cum_zeros[z];
        Some(match k {
            0 => start + q,
            // k == 1 has no zeros and is never selected here
            _ => start + (q / (k - 1)) * k + 1 + q % (k - 1),
        })
    }
    fn predecessor(&self, v: usize) -> Option<(usize, usize)> {
        let n = self.n();
        if n == 0 {
            return None;
        }
        let v = v.min(n - 1);
        let r = self.rank(v + 1);
        if r == 0 {
            None
        } else {
            Some((r - 1, self.select(r - 1).unwrap()))
        }
    }
    fn successor(&self, v: usize) -> Option<(usize, usize)> {
        if v >= self.n() {
            return None;
        }
        let r = self.rank(v);
        self.select(r).map(|p| (r, p))
    }
}

#[cfg(test)]
mod periodic_tests {
    use super::*;

    #[test]
    fn periodic_model_agrees_with_set_model() {
        for spec in [vec![(10usize, 3usize), (7, 0), (9, 1), (20, 2), (5, 7)], vec![(0, 1), (64, 64), (1, 1)], vec![(13, 0)], vec![(100, 9), (3, 5)], vec![]] {
            let pm = PeriodicModel::new(&spec);
            let mut ones = Vec::new();
            for z in 0..pm.zones.len() {
                ones.extend(pm.zone_ones(z));
            }
            let sm = SetModel::new(pm.n(), ones);
            assert_eq!(pm.m(), sm.m());
            for i in 0..pm.n() + 3 {
                if i < pm.n() {
                    assert_eq!(pm.get(i), sm.get(i), "get {}", i);
                }
                assert_eq!(pm.rank(i), sm.rank(i), "rank {}", i);
                assert_eq!(pm.select(i), sm.select(i), "select {}", i);
                assert_eq!(pm.select_zero(i), sm.select_zero(i), "select_zero {} in {:?}", i, spec);
                assert_eq!(pm.predecessor(i), sm.predecessor(i), "pred {}", i);
                assert_eq!(pm.successor(i), sm.successor(i), "succ {}", i);
            }
        }
    }
}

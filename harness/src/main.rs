use sds_verif::engine::{self, Opts, Tier};
use sds_verif::props;
use std::path::PathBuf;

fn usage() -> ! {
    eprintln!("usage: sds-verif run <ID> --tier quick|thorough --seed N --cfg NAME --out FILE [--shards N] [--known FILE] [--replays DIR] [--regress DIR] [--scratch DIR] [--cases N]");
    eprintln!("       sds-verif replay <ID> <FILE> [--cfg NAME] [--scratch DIR]");
    eprintln!("       sds-verif worker <ID>");
    std::process::exit(2);
}

fn main() {
    let args: Vec<String> = std::env::args().collect();
    if args.len() < 3 {
        usage();
    }
    let cmd = args[1].as_str();
    if cmd == "c20-first" {
        // child process of the C20 check: the very first temp_file_name calls of a process, made concurrently
        let threads: usize = args.get(2).and_then(|s| s.parse().ok()).unwrap_or(2);
        let calls: usize = args.get(3).and_then(|s| s.parse().ok()).unwrap_or(1);
        // name parts separated by the unit separator; thread t uses part t mod the number of parts
        let parts: Vec<String> = args.get(4).cloned().unwrap_or_default().split('\u{1f}').map(|s| s.to_string()).collect();
        std::process::exit(props::c20::first_calls_child(threads, calls, &parts));
    }
    let id = args[2].clone();
    let mut tier = Tier::Quick;
    let mut seed = 1u64;
    let mut cfg = "chk".to_string();
    let mut out = PathBuf::from("/dev/null");
    let mut shards = 16usize;
    let mut known = PathBuf::from("/verif/KNOWN_FINDINGS.txt");
    let mut replays = PathBuf::from("/verif/replays");
    let mut regress = PathBuf::from("/verif/replays/regress");
    let mut scratch = PathBuf::from("/verif/target/scratch");
    let mut cases = None;
    let mut isolate = false;
    let mut positional = Vec::new();
    let mut i = 3;
    while i < args.len() {
        let a = args[i].as_str();
        let mut val = || {
            i += 1;
            args.get(i).cloned().unwrap_or_else(|| usage())
        };
        match a {
            "--tier" => {
                tier = match val().as_str() {
                    "quick" => Tier::Quick,
                    "thorough" => Tier::Thorough,
                    _ => usage(),
                }
            }
            "--seed" => seed = val().parse().unwrap_or_else(|_| usage()),
            "--cfg" => cfg = val(),
            "--out" => out = PathBuf::from(val()),
            "--shards" => shards = val().parse().unwrap_or_else(|_| usage()),
            "--known" => known = PathBuf::from(val()),
            "--replays" => replays = PathBuf::from(val()),
            "--regress" => regress = PathBuf::from(val()),
            "--scratch" => scratch = PathBuf::from(val()),
            "--cases" => cases = Some(val().parse().unwrap_or_else(|_| usage())),
            "--isolate" => isolate = true,
            _ => positional.push(args[i].clone()),
        }
        i += 1;
    }
    let opts = Opts { tier, seed, cfg: cfg.clone(), shards: shards.max(1), out, known, replays_dir: replays, regress_dir: regress, scratch: scratch.clone(), cases_override: cases, isolate };
    let code = match cmd {
        "run" => props::dispatch_run(&id, &opts),
        "worker" => props::dispatch_worker(&id),
        "replay" => {
            if positional.is_empty() {
                usage();
            }
            props::dispatch_replay(&id, &PathBuf::from(&positional[0]), &scratch, &cfg)
        }
        "decode" => {
            // sds-verif decode <ID> <artifact> <out.json> [signature] [message]
            if positional.len() < 2 {
                usage();
            }
            let sig = positional.get(2).cloned().unwrap_or_else(|| "fuzz-crash".to_string());
            let msg = positional.get(3).cloned().unwrap_or_else(|| "the fuzz target died on this input".to_string());
            props::dispatch_decode(&id, &PathBuf::from(&positional[0]), &PathBuf::from(&positional[1]), &sig, &msg)
        }
        _ => usage(),
    };
    let _ = engine::take_last_panic();
    std::process::exit(code.unwrap_or_else(|| {
        eprintln!("unknown property id {}", id);
        2
    }));
}

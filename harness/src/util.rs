//! Small deterministic helpers: hashing for case digests, a pure PRNG for expanding recipes.

use std::hash::{Hash, Hasher};

/// FNV-1a, 64 bit. Deterministic across processes and builds.
#[derive(Clone)]
pub struct Fnv(pub u64);

impl Default for Fnv {
    fn default() -> Self {
        Fnv(0xcbf29ce484222325)
    }
}

impl Hasher for Fnv {
    fn finish(&self) -> u64 {
        // final avalanche (splitmix finalizer) so that low bits are usable
        let mut z = self.0;
        z = (z ^ (z >> 30)).wrapping_mul(0xbf58476d1ce4e5b9);
        z = (z ^ (z >> 27)).wrapping_mul(0x94d049bb133111eb);
        z ^ (z >> 31)
    }
    fn write(&mut self, bytes: &[u8]) {
        for b in bytes {
            self.0 ^= *b as u64;
            self.0 = self.0.wrapping_mul(0x100000001b3);
        }
    }
    fn write_u64(&mut self, v: u64) {
        // faster path: mix whole word
        self.0 = (self.0 ^ v).wrapping_mul(0x100000001b3);
        self.0 = (self.0 ^ (v >> 32)).wrapping_mul(0x100000001b3);
    }
    fn write_usize(&mut self, v: usize) {
        self.write_u64(v as u64)
    }
}

pub fn hash_of<T: Hash + ?Sized>(v: &T) -> u64 {
    let mut h = Fnv::default();
    v.hash(&mut h);
    h.finish()
}

pub fn hash_str(s: &str) -> u64 {
    let mut h = Fnv::default();
    h.write(s.as_bytes());
    h.finish()
}

pub fn hash_words(len: usize, words: &[u64]) -> u64 {
    let mut h = Fnv::default();
    h.write_usize(len);
    for w in words {
        h.write_u64(*w);
    }
    h.finish()
}

pub fn mix(a: u64, b: u64) -> u64 {
    let mut h = Fnv::default();
    h.write_u64(a);
    h.write_u64(b);
    h.finish()
}

/// SplitMix64: used only to expand a generated (seed, recipe) pair into bulk data, as a pure function of the case.
#[derive(Clone, Debug)]
pub struct SplitMix(pub u64);

impl SplitMix {
    pub fn new(seed: u64) -> Self {
        SplitMix(seed)
    }
    #[inline]
    pub fn next(&mut self) -> u64 {
        self.0 = self.0.wrapping_add(0x9e3779b97f4a7c15);
        let mut z = self.0;
        z = (z ^ (z >> 30)).wrapping_mul(0xbf58476d1ce4e5b9);
        z = (z ^ (z >> 27)).wrapping_mul(0x94d049bb133111eb);
        z ^ (z >> 31)
    }
    /// Uniform in 0..n (n > 0); slight modulo bias is irrelevant here.
    #[inline]
    pub fn below(&mut self, n: u64) -> u64 {
        if n == 0 {
            0
        } else {
            ((self.next() as u128 * n as u128) >> 64) as u64
        }
    }
    /// true with probability p/65536
    #[inline]
    pub fn chance(&mut self, p16: u32) -> bool {
        (self.next() & 0xFFFF) < p16 as u64
    }
    /// geometric-ish length with the given mean (>= 1)
    pub fn geometric(&mut self, mean: u64) -> u64 {
        if mean <= 1 {
            return 1;
        }
        // inverse transform on an exponential
        let u = (self.next() >> 11) as f64 / (1u64 << 53) as f64;
        let v = -(1.0 - u).ln() * mean as f64;
        (v as u64).max(1)
    }
}

/// Map a 16-bit fraction monotonically onto 0..=max (so that proptest shrinks towards 0).
#[inline]
pub fn frac(i: u16, max: usize) -> usize {
    ((i as u128 * (max as u128 + 1)) >> 16) as usize
}

pub fn bit_len(n: u64) -> usize {
    if n == 0 {
        1
    } else {
        64 - n.leading_zeros() as usize
    }
}

pub fn abbreviate(s: &str, max: usize) -> String {
    if s.len() <= max {
        s.to_string()
    } else {
        let mut end = max;
        while !s.is_char_boundary(end) {
            end -= 1;
        }
        format!("{}…(+{} chars)", &s[..end], s.len() - end)
    }
}

//! Shared proptest strategies: bit sequences by regime, run lists, sorted sets.

use crate::model::Bits;
use crate::util::{frac, SplitMix};
use proptest::prelude::*;
use serde::{Deserialize, Serialize};

use crate::engine::Tier;

//-----------------------------------------------------------------------------
// bit sequences

#[derive(Clone, Debug, Serialize, Deserialize, PartialEq, Eq, Hash)]
pub enum Kind {
    /// every bit set with probability p/65536
    Uniform(u32),
    /// alternating runs of ones and zeros with geometric lengths (mean_run, mean_gap)
    Clustered(u32, u32),
    /// `packed` consecutive ones starting at a/65536 of the length, then `spread` ones scattered over the whole vector
    PackedSpread(u32, u32, u16),
    /// a single set bit at the given fraction of the length
    Single(u16),
    /// 2..6 zones of random lengths with their own densities drawn from {0, 1/200, 1/60, 1/30, 1/8, 1/2, 7/8, 29/30, 59/60, 1}
    /// with irregular spacing: gives several long and short select superblocks (for ones and for zeros) in one vector
    Zones,
    AllZero,
    AllOne,
}

#[derive(Clone, Debug, Serialize, Deserialize, PartialEq, Eq, Hash)]
pub enum BitsSpec {
    /// small explicit sequences (shrink well)
    Bools(Vec<bool>),
    /// explicit runs: gaps and lengths alternate, starting with a gap; `tail` zeros at the end
    Runs(Vec<(u32, u32)>, u32),
    /// (len, kind, seed, complement): expanded by a pure function
    Recipe(usize, Kind, u64, bool),
}

impl BitsSpec {
    /// Clamp sizes (for specifications that did not come from the strategies).
    pub fn clamp(&mut self, max_len: usize) {
        match self {
            BitsSpec::Bools(v) => v.truncate(max_len),
            BitsSpec::Runs(runs, tail) => {
                let each = (max_len / (2 * runs.len().max(1) + 1)).max(1) as u32;
                for (g, l) in runs.iter_mut() {
                    *g %= each + 1;
                    *l %= each + 1;
                }
                *tail %= each + 1;
            }
            BitsSpec::Recipe(len, kind, _, _) => {
                *len %= max_len + 1;
                match kind {
                    Kind::Uniform(p) => *p %= 65537,
                    Kind::Clustered(a, b) => {
                        *a = (*a % 5000).max(1);
                        *b = (*b % 100_000).max(1);
                    }
                    Kind::PackedSpread(_, s, _) => *s %= 64,
                    _ => {}
                }
            }
        }
    }

    pub fn expand(&self) -> Bits {
        match self {
            BitsSpec::Bools(v) => Bits::from_bools(v),
            BitsSpec::Runs(runs, tail) => {
                let mut total = *tail as usize;
                for (g, l) in runs {
                    total += *g as usize + *l as usize;
                }
                let mut b = Bits::zeros(total);
                let mut pos = 0usize;
                for (g, l) in runs {
                    pos += *g as usize;
                    for p in pos..pos + *l as usize {
                        b.set(p, true);
                    }
                    pos += *l as usize;
                }
                b
            }
            BitsSpec::Recipe(len, kind, seed, complement) => {
                let len = *len;
                let mut rng = SplitMix::new(*seed);
                let mut b = Bits::zeros(len);
                match kind {
                    Kind::AllZero => {}
                    Kind::AllOne => b = Bits::filled(len, true),
                    Kind::Single(f) => {
                        if len > 0 {
                            b.set(frac(*f, len - 1), true);
                        }
                    }
                    Kind::Uniform(p) => {
                        if *p >= 32768 {
                            // dense: word-wise generation
                            for i in 0..len {
                                if rng.chance(*p) {
                                    b.set(i, true);
                                }
                            }
                        } else if *p > 0 {
                            // sparse: skip by geometric gaps
                            let mean = (65536 / *p as u64).max(1);
                            let mut pos = rng.geometric(mean) as usize - 1;
                            while pos < len {
                                b.set(pos, true);
                                pos += rng.geometric(mean) as usize;
                            }
                        }
                    }
                    Kind::Clustered(mr, mg) => {
                        let mut pos = (rng.geometric(*mg as u64) - 1) as usize;
                        while pos < len {
                            let l = rng.geometric(*mr as u64) as usize;
                            let end = (pos + l).min(len);
                            for p in pos..end {
                                b.set(p, true);
                            }
                            pos = end + rng.geometric(*mg as u64) as usize;
                        }
                    }
                    Kind::Zones => {
                        const DENS: [u32; 10] = [0, 328, 1092, 2185, 8192, 32768, 57344, 63351, 64444, 65536];
                        let zones = 2 + rng.below(5) as usize;
                        let mut cuts: Vec<usize> = (0..zones - 1).map(|_| rng.below(len as u64 + 1) as usize).collect();
                        cuts.push(0);
                        cuts.push(len);
                        cuts.sort_unstable();
                        for z in 0..zones {
                            let (a, e) = (cuts[z], cuts[z + 1]);
                            let p = DENS[rng.below(DENS.len() as u64) as usize];
                            if p == 0 {
                                continue;
                            }
                            if p >= 32768 {
                                for i in a..e {
                                    if rng.chance(p) {
                                        b.set(i, true);
                                    }
                                }
                            } else {
                                let mean = (65536 / p as u64).max(1);
                                let mut pos = a + rng.geometric(mean) as usize - 1;
                                while pos < e {
                                    b.set(pos, true);
                                    pos += rng.geometric(mean) as usize;
                                }
                            }
                        }
                    }
                    Kind::PackedSpread(packed, spread, at) => {
                        if len > 0 {
                            let packed = (*packed as usize).min(len);
                            let start = frac(*at, len - packed);
                            for p in start..start + packed {
                                b.set(p, true);
                            }
                            for _ in 0..*spread {
                                let p = rng.below(len as u64) as usize;
                                b.set(p, true);
                            }
                        }
                    }
                }
                if *complement {
                    b = b.complement();
                }
                b
            }
        }
    }
}

fn kind_strategy() -> BoxedStrategy<Kind> {
    prop_oneof![
        3 => prop_oneof![Just(66u32), Just(655), Just(6554), Just(32768), Just(58982), Just(64881), Just(65470), 1u32..65536].prop_map(Kind::Uniform),
        3 => (prop_oneof![Just(1u32), 2u32..8, 8u32..200, 200u32..5000], prop_oneof![Just(1u32), 2u32..8, 8u32..200, 200u32..5000, 5000u32..100_000]).prop_map(|(a, b)| Kind::Clustered(a, b)),
        3 => (prop_oneof![Just(4096u32), Just(4097), Just(8192), 4000u32..4200, 1u32..9000], 0u32..40, any::<u16>()).prop_map(|(p, s, a)| Kind::PackedSpread(p, s, a)),
        1 => any::<u16>().prop_map(Kind::Single),
        4 => Just(Kind::Zones),
        1 => Just(Kind::AllZero),
        1 => Just(Kind::AllOne),
    ]
    .boxed()
}

/// Lengths around the thresholds the code branches on.
pub fn len_strategy(max_len: usize) -> BoxedStrategy<usize> {
    let edges: Vec<usize> = vec![0, 1, 2, 63, 64, 65, 127, 128, 129, 511, 512, 513, 1023, 1024, 1025, 4095, 4096, 4097, 8191, 8192, 8193, 65535, 65536, 65537, 83520, 83521, 83522, 104_976, 130_321, 131_072, 262_144, 1 << 20]
        .into_iter()
        .filter(|&l| l <= max_len)
        .collect();
    let mid = max_len.min(70_000);
    let mut options: Vec<(u32, BoxedStrategy<usize>)> = vec![
        (4, proptest::sample::select(edges).boxed()),
        (3, (0usize..=600.min(max_len)).boxed()),
        (3, (0usize..=mid).boxed()),
    ];
    if max_len > 83_521 {
        options.push((4, (83_521usize..=max_len.min(140_000)).boxed()));
    }
    if max_len > 140_000 {
        // room for two or more long superblocks (2 x 4096 items spaced >= 26 apart) next to short ones
        options.push((3, (140_000usize..=max_len).boxed()));
    }
    proptest::strategy::Union::new_weighted(options).boxed()
}

/// Bit sequences by regime. `max_len` bounds the recipe lengths.
pub fn bits_spec(max_len: usize) -> BoxedStrategy<BitsSpec> {
    prop_oneof![
        2 => proptest::collection::vec(any::<bool>(), 0..200).prop_map(BitsSpec::Bools),
        1 => proptest::collection::vec(prop_oneof![4 => Just(false), 1 => Just(true)], 0..300).prop_map(BitsSpec::Bools),
        2 => (proptest::collection::vec((run_len(), run_len()), 0..60), run_len()).prop_map(|(r, t)| BitsSpec::Runs(r, t)),
        8 => (len_strategy(max_len), kind_strategy(), any::<u64>(), any::<bool>()).prop_map(|(l, k, s, c)| BitsSpec::Recipe(l, k, s, c)),
    ]
    .boxed()
}

fn run_len() -> BoxedStrategy<u32> {
    prop_oneof![3 => 0u32..4, 3 => 1u32..70, 1 => 60u32..70, 1 => 500u32..530, 1 => 1u32..5000].boxed()
}

pub fn max_bits(tier: Tier) -> usize {
    tier.pick(450_000, 2_000_000)
}

//-----------------------------------------------------------------------------
// classification shared by the bitvector properties

/// Which internal regimes of the plain bitvector a bit sequence reaches (computed from the model, not from the library).
pub fn classify_bits(b: &Bits, classes: &mut Vec<String>) {
    let n = b.len;
    let m = b.count_ones();
    let log4 = {
        let l = crate::util::bit_len(n as u64);
        l * l * l * l
    };
    let mut c = |s: &str| classes.push(s.to_string());
    if n == 0 {
        c("len=0");
    }
    if n % 64 != 0 {
        c("partial-last-word");
    }
    if n % 512 != 0 {
        c("partial-last-block");
    }
    if n > 65536 {
        c("len>2^16");
    }
    if m == 0 && n > 0 {
        c("all-zero");
    }
    if m == n && n > 0 {
        c("all-one");
    }
    for (label, ones) in [("ones", b.positions()), ("zeros", if n <= 2_100_000 { b.zero_positions() } else { Vec::new() })] {
        if ones.len() > 4096 {
            classes.push(format!(">1-superblock({})", label));
        }
        let mut long = false;
        let mut short = false;
        let mut nlong = 0usize;
        let mut long_after_short = false;
        let mut short_after_long = false;
        let mut i = 0;
        while i < ones.len() {
            let start = ones[i];
            let limit = if i + 4096 < ones.len() { ones[i + 4096] } else { n };
            if limit - start >= log4 {
                long_after_short |= short;
                long = true;
                nlong += 1;
            } else {
                short_after_long |= long;
                short = true;
            }
            i += 4096;
        }
        if nlong >= 2 {
            classes.push(format!(">=2-long-superblocks({})", label));
        }
        if long_after_short {
            classes.push(format!("long-after-short({})", label));
        }
        if short_after_long {
            classes.push(format!("short-after-long({})", label));
        }
        if long {
            classes.push(format!("long-superblock({})", label));
        }
        if short {
            classes.push(format!("short-superblock({})", label));
        }
        if long && short {
            classes.push(format!("long+short({})", label));
        }
    }
}

//! Glue for coverage-guided fuzzing: the fuzzer's bytes are decoded structurally into the property's own Case type
//! (serde-based decoder in `bytesde`), and the same `Prop::run` decides.

use crate::engine::{self, Fail, Prop, ReplayFile};
use crate::util::hash_str;
use std::collections::{BTreeMap, HashSet};
use std::sync::{Mutex, Once};

#[derive(Default)]
struct Stats {
    id: String,
    execs: u64,
    undecodable: u64,
    evals: u64,
    keys: HashSet<u64>,
    classes: BTreeMap<String, u64>,
    known_excluded: u64,
    samples: Vec<serde_json::Value>,
}

static STATS: Mutex<Option<Stats>> = Mutex::new(None);
static INIT: Once = Once::new();

extern "C" fn write_stats() {
    if let Ok(path) = std::env::var("VERIF_FUZZ_STATS") {
        let path = format!("{}.{}", path, std::process::id());
        if let Ok(g) = STATS.lock() {
            if let Some(s) = g.as_ref() {
                let v = serde_json::json!({
                    "property_id": s.id,
                    "executions": s.execs,
                    "undecodable_inputs": s.undecodable,
                    "evaluations": s.evals,
                    "distinct_nontrivial": s.keys.len(),
                    "classes": s.classes,
                    "known_excluded": s.known_excluded,
                    "samples": s.samples,
                });
                let _ = std::fs::write(path, serde_json::to_string_pretty(&v).unwrap_or_default());
            }
        }
    }
}

/// Build a case from raw bytes: structure-aware decoding of the property's Case type (see `bytesde`), then clamping of
/// resource-sizing fields.
pub fn case_from_bytes<P: Prop>(data: &[u8]) -> Option<P::Case> {
    let mut case: P::Case = crate::bytesde::from_bytes(data, 40).ok()?;
    P::sanitize(&mut case);
    Some(case)
}

fn report_and_abort<P: Prop>(f: &Fail, case: &P::Case) -> ! {
    let dir = std::env::var("VERIF_FUZZ_REPLAYS").unwrap_or_else(|_| "/verif/replays".to_string());
    let _ = std::fs::create_dir_all(&dir);
    let json = serde_json::to_string(case).unwrap_or_default();
    let path = format!("{}/{}-fuzz-{:016x}.json", dir, P::ID, hash_str(&format!("{}|{}", f.sig, json)));
    let rf = ReplayFile { property: P::ID.to_string(), config: "chk".to_string(), seed: 0, sig: f.sig.clone(), msg: f.msg.clone(), case: case.clone() };
    let _ = std::fs::write(&path, serde_json::to_string_pretty(&rf).unwrap_or_default());
    eprintln!("FUZZ-VIOLATION property={} replay={} signature={}", P::ID, path, f.sig);
    eprintln!("{}", crate::util::abbreviate(&f.msg, 3000));
    write_stats();
    std::process::abort();
}

pub fn one_input<P: Prop>(data: &[u8]) {
    INIT.call_once(|| {
        // libfuzzer-sys installs a hook that aborts on every panic; caught panics are legal outcomes here
        engine::install_panic_hook();
        *STATS.lock().unwrap() = Some(Stats { id: P::ID.to_string(), ..Stats::default() });
        unsafe {
            libc::atexit(write_stats);
        }
    });
    let case = match case_from_bytes::<P>(data) {
        Some(c) => c,
        None => {
            if let Ok(mut g) = STATS.lock() {
                if let Some(s) = g.as_mut() {
                    s.execs += 1;
                    s.undecodable += 1;
                }
            }
            return;
        }
    };
    let res = match engine::catch(|| P::run(&case)) {
        Ok(r) => r,
        Err((loc, msg)) => Err(Fail::new(format!("panic@{}", loc), format!("panic at {}: {}", loc, msg))),
    };
    match res {
        Ok(r) => {
            if let Ok(mut g) = STATS.lock() {
                if let Some(s) = g.as_mut() {
                    s.execs += 1;
                    s.evals += r.evals.max(1);
                    for k in &r.keys {
                        s.keys.insert(*k);
                    }
                    for c in &r.classes {
                        *s.classes.entry(c.clone()).or_insert(0) += 1;
                    }
                    if !r.keys.is_empty() && s.samples.len() < 3 {
                        let text = serde_json::to_string(&case).unwrap_or_default();
                        s.samples.push(serde_json::Value::String(crate::util::abbreviate(&text, 600)));
                    }
                }
            }
        }
        Err(f) if f.sig == "infra" => {
            // the harness's own plumbing failed (scratch file): not a verdict, the input is skipped
            return;
        }
        Err(f) => {
            let known_path = std::env::var("VERIF_KNOWN").unwrap_or_else(|_| "/verif/KNOWN_FINDINGS.txt".to_string());
            let known = engine::load_known(std::path::Path::new(&known_path), P::ID);
            if known.iter().any(|k| k.key == f.sig) {
                if let Ok(mut g) = STATS.lock() {
                    if let Some(s) = g.as_mut() {
                        s.execs += 1;
                        s.known_excluded += 1;
                    }
                }
                return;
            }
            report_and_abort::<P>(&f, &case);
        }
    }
}

/// Decode a fuzzer artifact into a replay file (used for crashes the target could not report itself, e.g. AddressSanitizer aborts).
pub fn decode_to_replay<P: Prop>(artifact: &std::path::Path, out: &std::path::Path, sig: &str, msg: &str) -> i32 {
    let data = match std::fs::read(artifact) {
        Ok(d) => d,
        Err(e) => {
            eprintln!("cannot read {}: {}", artifact.display(), e);
            return 2;
        }
    };
    match case_from_bytes::<P>(&data) {
        Some(case) => {
            let rf = ReplayFile { property: P::ID.to_string(), config: "relub".to_string(), seed: 0, sig: sig.to_string(), msg: msg.to_string(), case };
            match std::fs::write(out, serde_json::to_string_pretty(&rf).unwrap_or_default()) {
                Ok(()) => 0,
                Err(_) => 2,
            }
        }
        None => 2,
    }
}

//! C03 — run-length bitvector answers every query exactly and reports maximal runs.

use crate::engine::{CaseResult, Fail, Prop, Report, Tier};
use crate::model::{check_bitvec, Bits, Plan, RunModel};
use crate::util::{bit_len, hash_of};
use crate::{ensure, ensure_eq};
use proptest::prelude::*;
use serde::{Deserialize, Serialize};
use simple_sds::bit_vector::BitVector;
use simple_sds::rl_vector::{RLBuilder, RLVector};
use simple_sds::sparse_vector::{SparseBuilder, SparseVector};
use std::collections::BTreeMap;
use std::convert::TryFrom;

pub struct C03;

/// A magnitude: small, medium, or 2^k + d.
#[derive(Clone, Copy, Debug, Serialize, Deserialize, Hash, PartialEq, Eq)]
pub enum Mag {
    S(u8),
    M(u16),
    P(u8, i8),
}

impl Mag {
    pub fn value(self) -> usize {
        match self {
            Mag::S(v) => v as usize,
            Mag::M(v) => v as usize,
            Mag::P(k, d) => {
                let base = 1u128 << (k.min(63) as u32);
                let v = base as i128 + d as i128;
                v.clamp(0, usize::MAX as i128) as usize
            }
        }
    }
}

pub fn mag() -> BoxedStrategy<Mag> {
    prop_oneof![
        4 => (0u8..8).prop_map(Mag::S),
        3 => any::<u8>().prop_map(Mag::S),
        2 => any::<u16>().prop_map(Mag::M),
        3 => (0u8..=63, -2i8..=2).prop_map(|(k, d)| Mag::P(k, d)),
        1 => (56u8..=63, -2i8..=2).prop_map(|(k, d)| Mag::P(k, d)),
    ]
    .boxed()
}

#[derive(Clone, Debug, Serialize, Deserialize, Hash)]
pub enum Shape {
    /// first gap, then (run length, gap after the run) pairs, then `many` repetitions of small (len, gap) cycles
    Generic { first_gap: Mag, runs: Vec<(Mag, Mag)>, many: u16, cycle: Vec<(u8, u8)> },
    /// a run at position 0 of length a, a second run (gap, len) that may not fit into the first block, then many small runs:
    /// the first block then holds no unset bit
    BigThenMany { a: Mag, gap: Mag, len: Mag, many: u16, cycle: Vec<(u8, u8)> },
    /// explicit small bit string
    Bools(Vec<bool>),
}

impl Shape {
    /// Sorted, non-overlapping (possibly adjacent) runs that fit below usize::MAX; returns (runs, end of last run).
    pub fn runs(&self) -> (Vec<(usize, usize)>, usize) {
        let mut out: Vec<(usize, usize)> = Vec::new();
        let mut pos: usize = 0;
        let push = |start: usize, len: usize, pos: &mut usize, out: &mut Vec<(usize, usize)>| -> bool {
            if len == 0 {
                return true;
            }
            match start.checked_add(len) {
                Some(end) => {
                    out.push((start, len));
                    *pos = end;
                    true
                }
                None => false,
            }
        };
        match self {
            Shape::Bools(v) => {
                let b = Bits::from_bools(v);
                let r = b.runs();
                let end = r.last().map(|&(s, l)| s + l).unwrap_or(0);
                return (r, end);
            }
            Shape::Generic { first_gap, runs, many, cycle } => {
                pos = first_gap.value();
                let mut ok = true;
                for (len, gap) in runs {
                    let start = pos;
                    if !push(start, len.value(), &mut pos, &mut out) {
                        ok = false;
                        break;
                    }
                    match pos.checked_add(gap.value()) {
                        Some(p) => pos = p,
                        None => {
                            ok = false;
                            break;
                        }
                    }
                }
                if ok && !cycle.is_empty() {
                    for i in 0..*many as usize {
                        let (l, g) = cycle[i % cycle.len()];
                        let start = match pos.checked_add(g as usize) {
                            Some(s) => s,
                            None => break,
                        };
                        if !push(start, l as usize + 1, &mut pos, &mut out) {
                            break;
                        }
                    }
                }
            }
            Shape::BigThenMany { a, gap, len, many, cycle } => {
                let mut ok = push(0, a.value().max(1), &mut pos, &mut out);
                if ok {
                    match pos.checked_add(gap.value().max(1)) {
                        Some(s) => ok = push(s, len.value().max(1), &mut pos, &mut out),
                        None => ok = false,
                    }
                }
                if ok && !cycle.is_empty() {
                    for i in 0..*many as usize {
                        let (l, g) = cycle[i % cycle.len()];
                        let start = match pos.checked_add(g as usize + 1) {
                            Some(s) => s,
                            None => break,
                        };
                        if !push(start, l as usize + 1, &mut pos, &mut out) {
                            break;
                        }
                    }
                }
            }
        }
        let end = out.last().map(|&(s, l)| s + l).unwrap_or(0);
        (out, end)
    }
}

#[derive(Clone, Debug, Serialize, Deserialize, Hash)]
pub struct Case {
    pub shape: Shape,
    /// how many pieces each run is split into when fed to the builder (cycled)
    pub split: Vec<u8>,
    /// trailing zeros (None: the vector ends with its last run and set_len is not called)
    pub tail: Option<Mag>,
    /// also call set_len with smaller / equal values in between (must be ignored)
    pub redundant_set_len: bool,
    pub route: u8,
    pub extra: Vec<u64>,
}

pub const NUM_ROUTES: u8 = 6;

/// Number of 4-bit code units for a value, from SERIALIZATION.md (3 data bits per unit).
pub fn code_units(v: usize) -> usize {
    (bit_len(v as u64) + 2) / 3
}

/// Greedy packing of runs into 64-unit blocks as the format document prescribes: returns (blocks, max units of one value, any block padded).
pub fn packing(runs: &[(usize, usize)]) -> (usize, usize, bool) {
    let mut blocks = 0usize;
    let mut used = 64usize; // forces a new block for the first run
    let mut tail = 0usize;
    let mut max_units = 0usize;
    let mut padded = false;
    for &(s, l) in runs {
        let a = code_units(s - tail);
        let b = code_units(l - 1);
        max_units = max_units.max(a).max(b);
        if used + a + b > 64 {
            if blocks > 0 && used < 64 {
                padded = true;
            }
            blocks += 1;
            used = 0;
        }
        used += a + b;
        tail = s + l;
    }
    (blocks, max_units, padded)
}

/// Feed the runs to a builder, each run split into adjacent pieces.
pub fn build_rl(n: Option<usize>, runs: &[(usize, usize)], split: &[u8], redundant_set_len: bool, unchecked: bool) -> RLVector {
    let mut b = RLBuilder::new();
    let mut k = 0usize;
    for &(s, l) in runs {
        let pieces = if split.is_empty() { 1 } else { (split[k % split.len()] as usize % 4) + 1 };
        k += 1;
        let pieces = pieces.min(l).max(1);
        let base = l / pieces;
        let mut start = s;
        if redundant_set_len && k % 2 == 1 && s > b.len() {
            // the gap in front of a run may be made by set_len: len() is "the first position that can be set"
            b.set_len(s);
        }
        for i in 0..pieces {
            let len = if i + 1 == pieces { s + l - start } else { base };
            if unchecked {
                unsafe { b.set_run_unchecked(start, len) };
            } else {
                b.try_set(start, len).expect("RLBuilder::try_set on a valid run");
            }
            start += len;
            if redundant_set_len && (k + i) % 2 == 0 {
                // documented no-ops in the middle of a run: must not split it
                b.set_len(b.len());
                b.set_len(0);
            }
            if redundant_set_len && (k + i) % 3 == 0 {
                // a refused call (the run would end beyond usize::MAX) and an empty run ahead of the vector leave the builder as it was
                let _ = b.try_set(usize::MAX - 2, 10);
                if b.len() < usize::MAX - 40 {
                    let _ = b.try_set(b.len() + 17, 0);
                }
            }
        }
        if redundant_set_len && k % 3 == 0 {
            // set_len never shrinks: these calls must have no effect
            b.set_len(b.len());
            b.set_len(b.len() / 2);
        }
    }
    if let Some(n) = n {
        b.set_len(n);
    }
    RLVector::from(b)
}

fn rl_by_route(n: usize, has_tail: bool, runs: &[(usize, usize)], case: &Case, ones: usize) -> RLVector {
    let nn = if has_tail { Some(n) } else { None };
    match case.route % NUM_ROUTES {
        1 if ones <= 200_000 => {
            let mut b = RLBuilder::new();
            for &(s, l) in runs {
                for p in s..s + l {
                    unsafe { b.set_bit_unchecked(p) };
                }
            }
            if let Some(n) = nn {
                b.set_len(n);
            }
            RLVector::from(b)
        }
        2 => build_rl(nn, runs, &case.split, case.redundant_set_len, true),
        3 if n <= 2_000_000 => {
            let bits = Bits::from_runs(n, runs);
            RLVector::from(BitVector::from(crate::props::c01::raw_by_set_bit(&bits)))
        }
        4 if ones <= 300_000 && (ones >= 1 || n <= (1usize << 27)) => {
            let mut sb = SparseBuilder::new(n, ones).expect("SparseBuilder::new");
            for &(s, l) in runs {
                for p in s..s + l {
                    sb.set(p);
                }
            }
            let sv = SparseVector::try_from(sb).expect("SparseVector::try_from");
            RLVector::copy_bit_vec(&sv)
        }
        5 if n <= 2_000_000 => {
            let bits = Bits::from_runs(n, runs);
            RLVector::copy_bit_vec(&BitVector::from(crate::props::c01::raw_by_push_bit(&bits)))
        }
        _ => build_rl(nn, runs, &case.split, case.redundant_set_len, false),
    }
}

fn scale(raw: u64, n: usize) -> usize {
    ((raw as u128 * (n as u128 + 1)) >> 64) as usize
}

pub fn check_run_iter(rl: &RLVector, model: &RunModel, limit: usize) -> Result<(), Fail> {
    let mut it = rl.run_iter();
    ensure_eq!((it.offset(), it.rank(), it.rank_zero()), (0usize, 0usize, 0usize), "RLVector.run_iter", "run_iter() start state");
    for (k, &(s, l)) in model.runs.iter().enumerate().take(limit) {
        let got = it.next();
        ensure_eq!(got, Some((s, l)), "RLVector.run_iter", "run {} of run_iter()", k);
        let ones = model.cum[k] + l;
        ensure_eq!((it.offset(), it.rank(), it.rank_zero()), (s + l, ones, s + l - ones), "RLVector.run_iter", "offset/rank/rank_zero after run {}", k);
    }
    if model.runs.len() <= limit {
        ensure_eq!(it.next(), None, "RLVector.run_iter", "run_iter() after the last run");
        ensure_eq!(it.next(), None, "RLVector.run_iter", "run_iter() after the end (fused)");
    }
    Ok(())
}

pub fn rl_plan(model: &RunModel, extra: &[u64], full_limit: usize) -> Plan {
    let n = model.n;
    if n <= full_limit {
        return Plan::all(model);
    }
    let mut idx = Vec::new();
    let mut ranks = Vec::new();
    let step = (model.runs.len() / 1500).max(1);
    let mut k = 0;
    while k < model.runs.len() {
        let (s, l) = model.runs[k];
        idx.push(s.saturating_sub(1));
        idx.push(s);
        idx.push(s + (l - 1));
        idx.push(s.saturating_add(l));
        ranks.push(model.cum[k]);
        ranks.push(model.cum[k] + (l - 1));
        ranks.push(model.cum[k].saturating_sub(1));
        // zero ranks at the run: number of zeros before it
        ranks.push(s - model.cum[k]);
        ranks.push((s - model.cum[k]).saturating_sub(1));
        k += step;
    }
    for (i, &e) in extra.iter().enumerate() {
        if i % 2 == 0 {
            idx.push(scale(e, n));
        } else {
            ranks.push(scale(e, n));
        }
    }
    Plan::sampled(model, 300, &idx, &ranks, 150_000)
}

impl Prop for C03 {
    type Case = Case;
    const ID: &'static str = "C03";
    const RULE: &'static str = "run lists: 0..~2000 runs with gap/run magnitudes from {0..7, 0..255, 0..65535, 2^k+d for k<=63} under a running budget below usize::MAX, repeated small-run cycles to reach 8/9/10/100+ blocks, a directed shape whose first block holds no unset bit, explicit small strings; built through RLBuilder (try_set with runs split into 1..4 adjacent pieces, set_run_unchecked, set_bit_unchecked per bit, with and without trailing set_len, redundant set_len calls) or by conversion from the plain / sparse vector; every query compared with a run-list model (all arguments when len <= 3000, else run edges of up to 1500 runs, ends, extremes, generated), run_iter compared run by run with offset/rank/rank_zero. All bit strings of length <= 12 enumerated. Non-trivial: >= 2 maximal runs; distinct by (len, runs).";

    fn cases(tier: Tier) -> u32 {
        tier.pick(24_000, 200_000)
    }

    fn strategy(tier: Tier, _cfg: &str) -> BoxedStrategy<Case> {
        let many_max = tier.pick(700u16, 6000u16);
        let many_rare = tier.pick(4000u16, 20_000u16);
        let cycle = proptest::collection::vec((prop_oneof![3 => 0u8..7, 1 => any::<u8>()], prop_oneof![3 => 1u8..8, 1 => any::<u8>()]), 1..5);
        let generic = (mag(), proptest::collection::vec((mag(), mag()), 0..40), prop_oneof![16 => Just(0u16), 8 => 0u16..40, 8 => 240u16..340, 8 => 0u16..many_max, 1 => 3200u16..many_rare], cycle.clone())
            .prop_map(|(first_gap, runs, many, cycle)| Shape::Generic { first_gap, runs, many, cycle });
        let big = (
            prop_oneof![(58u8..=61, -1i8..=2).prop_map(|(k, d)| Mag::P(k, d)), (60u8..=61, 1i8..=2).prop_map(|(k, d)| Mag::P(k, d))],
            prop_oneof![(58u8..=62, -1i8..=2).prop_map(|(k, d)| Mag::P(k, d)), (60u8..=61, 0i8..=2).prop_map(|(k, d)| Mag::P(k, d))],
            prop_oneof![(59u8..=63, -1i8..=2).prop_map(|(k, d)| Mag::P(k, d)), (63u8..=63, 1i8..=2).prop_map(|(k, d)| Mag::P(k, d))],
            prop_oneof![1 => 0u16..200, 3 => 250u16..many_max],
            cycle,
        )
            .prop_map(|(a, gap, len, many, cycle)| Shape::BigThenMany { a, gap, len, many, cycle });
        let bools = proptest::collection::vec(any::<bool>(), 0..400).prop_map(Shape::Bools);
        let shape = prop_oneof![8 => generic, 2 => big, 2 => bools];
        (shape, proptest::collection::vec(0u8..4, 0..5), proptest::option::weighted(0.6, mag()), any::<bool>(), 0u8..NUM_ROUTES, proptest::collection::vec(any::<u64>(), 0..40))
            .prop_map(|(shape, split, tail, redundant_set_len, route, extra)| Case { shape, split, tail, redundant_set_len, route, extra })
            .boxed()
    }

    fn exhaustive(_tier: Tier, shard: usize, nshards: usize, emit: &mut dyn FnMut(Case) -> bool) {
        let mut idx = 0usize;
        for len in 0..=12usize {
            for v in 0u32..(1u32 << len) {
                idx += 1;
                if (idx - 1) % nshards != shard {
                    continue;
                }
                let bools: Vec<bool> = (0..len).map(|i| (v >> i) & 1 == 1).collect();
                // trailing zeros of the string are expressed through the tail
                let trailing = bools.iter().rev().take_while(|b| !**b).count();
                let case = Case { shape: Shape::Bools(bools), split: vec![(idx % 4) as u8], tail: if trailing > 0 || idx % 2 == 0 { Some(Mag::S(trailing as u8)) } else { None }, redundant_set_len: idx % 5 == 0, route: (idx % NUM_ROUTES as usize) as u8, extra: vec![] };
                if !emit(case) {
                    return;
                }
            }
        }
    }

    fn exhaustive_note(_tier: Tier) -> Option<String> {
        Some("every bit string of length 0..=12 as a run list x every query argument".into())
    }

    fn run(case: &Case) -> CaseResult {
        let (runs, end) = case.shape.runs();
        let (n, has_tail) = match case.tail {
            Some(t) => (end.saturating_add(t.value()), true),
            None => (end, false),
        };
        let model = RunModel::new(n, &runs);
        let mut rep = Report::new();
        let mut rl = rl_by_route(n, has_tail, &runs, case, model.ones);
        crate::model::enable_builtin_supports(&mut rl, case.route / 8, "RLVector")?;
        rep.class(&format!("route:{}", case.route % NUM_ROUTES));

        let plan = rl_plan(&model, &case.extra, 3000);
        check_bitvec(&rl, &model, &plan, "RLVector")?;
        check_run_iter(&rl, &model, 200_000)?;
        // a second, differently decomposed construction must be equal
        let other = build_rl(if has_tail { Some(n) } else { None }, &model.runs, &[], false, false);
        ensure!(other == rl, "RLVector.routes-equal", "RLVector built from maximal runs != the one built by route {} (len {}, {} runs)", case.route % NUM_ROUTES, n, model.runs.len());

        let (blocks, max_units, padded) = packing(&model.runs);
        rep.class(match blocks {
            0 => "blocks:0",
            1 => "blocks:1",
            2..=7 => "blocks:2-7",
            8 => "blocks:8",
            9 => "blocks:9",
            10..=16 => "blocks:10-16",
            17..=99 => "blocks:17-99",
            _ => "blocks:100+",
        });
        rep.class(match max_units {
            0..=1 => "units:1",
            2 => "units:2",
            3 => "units:3",
            4..=10 => "units:4-10",
            11..=21 => "units:11-21",
            _ => "units:22",
        });
        rep.class_if(padded, "block-closed-early");
        rep.class_if(model.runs.first().map(|r| r.0 == 0).unwrap_or(false), "first-run-at-0");
        rep.class_if(has_tail && n > end, "trailing-zeros");
        rep.class_if(n > 1usize << 32, "len>2^32");
        rep.class_if(n > 1usize << 63, "len>2^63");
        rep.class_if(n <= 3000, "plan:all-arguments");
        if let Some(&(s0, l0)) = model.runs.first() {
            if s0 == 0 && model.runs.len() >= 2 {
                let first_units = code_units(0) + code_units(l0 - 1);
                let (s1, l1) = model.runs[1];
                if first_units + code_units(s1 - l0) + code_units(l1 - 1) > 64 {
                    rep.class("first-block-without-zeros");
                    rep.class_if(blocks >= 9, "first-block-without-zeros+9blocks");
                }
            }
        }
        if model.runs.len() >= 2 {
            rep.nontrivial(hash_of(&(n, &model.runs)));
        }
        Ok(rep)
    }

    fn health(classes: &BTreeMap<String, u64>, _tier: Tier) -> Result<(), String> {
        for c in ["blocks:1", "blocks:8", "blocks:9", "blocks:10-16", "blocks:17-99", "blocks:100+", "units:22", "units:11-21", "block-closed-early", "first-run-at-0", "trailing-zeros", "len>2^63", "first-block-without-zeros+9blocks", "plan:all-arguments"] {
            if classes.get(c).copied().unwrap_or(0) == 0 {
                return Err(format!("no generated case reached class {}", c));
            }
        }
        Ok(())
    }

    fn sanitize(case: &mut Case) {
        // byte-decoded (fuzzer) cases: bounded numbers of runs; the magnitudes stay free
        match &mut case.shape {
            Shape::Generic { runs, many, cycle, .. } => {
                runs.truncate(24);
                *many %= 150;
                cycle.truncate(8);
            }
            Shape::BigThenMany { many, cycle, .. } => {
                *many %= 150;
                cycle.truncate(8);
            }
            Shape::Bools(b) => b.truncate(2000),
        }
        case.split.truncate(8);
        case.extra.truncate(24);
    }

    fn assumptions() -> Vec<String> {
        vec![
            "get is asked only below len and rank_zero only up to len".into(),
            "vectors longer than 3000 bits are queried at the edges of up to 1500 evenly spread runs, ends, extremes, neighbourhoods of 300 set bits and generated arguments".into(),
            "block counts in the class histogram come from the harness's own greedy packing simulation written from SERIALIZATION.md".into(),
        ]
    }
}

//! C12 — buffered file writers produce exactly the in-memory serialization.

use crate::engine::{CaseResult, Fail, Prop, Report, Tier};
use crate::util::hash_of;
use crate::{ensure, ensure_eq};
use proptest::prelude::*;
use serde::{Deserialize, Serialize};
use simple_sds::int_vector::{IntVector, IntVectorWriter};
use simple_sds::ops::{Push, Vector};
use simple_sds::raw_vector::{PushRaw, RawVector, RawVectorWriter};
use simple_sds::serialize::Serialize as Sds;
use std::collections::BTreeMap;

pub struct C12;

#[derive(Clone, Debug, Serialize, Deserialize, Hash)]
pub enum Buf {
    Default,
    /// requested buffer length (items for the integer writer, bits for the raw writer)
    Len(u32),
    /// exactly the size of the data
    ExactData,
}

#[derive(Clone, Debug, Serialize, Deserialize, Hash)]
pub enum IntPush {
    Push(u64),
    /// item type (u8, u16, u32, u64, usize), values
    Extend(u8, Vec<u64>),
}

#[derive(Clone, Debug, Serialize, Deserialize, Hash)]
pub enum RawPush {
    Bit(bool),
    Int(u64, u8),
}

#[derive(Clone, Copy, Debug, Serialize, Deserialize, Hash, PartialEq, Eq)]
pub enum Ending {
    Close,
    CloseTwice,
    Drop,
    CloseThenDrop,
}

#[derive(Clone, Debug, Serialize, Deserialize, Hash)]
pub enum Case {
    Int { width: u8, buf: Buf, hist: Vec<IntPush>, ending: Ending, #[serde(default)] preexisting: bool },
    Raw { header: Vec<u64>, buf: Buf, hist: Vec<RawPush>, ending: Ending, #[serde(default)] preexisting: bool },
}

/// A longer file already exists under the name ("If the file already exists, it will be overwritten").
fn precreate(path: &std::path::Path, expected_len: usize) {
    let _ = std::fs::write(path, vec![0xABu8; 2 * expected_len + 64]);
}

fn typed(t: u8, v: u64) -> u64 {
    match t % 5 {
        0 => v as u8 as u64,
        1 => v as u16 as u64,
        2 => v as u32 as u64,
        _ => v,
    }
}

fn extend_writer(w: &mut IntVectorWriter, t: u8, vals: &[u64]) {
    // t / 5 selects the kind of iterator: exact size hint, or a filtered one whose lower bound is 0
    let inexact = (t / 5) % 2 == 1;
    match (t % 5, inexact) {
        (0, false) => w.extend(vals.iter().map(|&v| v as u8)),
        (1, false) => w.extend(vals.iter().map(|&v| v as u16)),
        (2, false) => w.extend(vals.iter().map(|&v| v as u32)),
        (3, false) => w.extend(vals.iter().copied()),
        (_, false) => w.extend(vals.iter().map(|&v| v as usize)),
        (0, true) => w.extend(vals.iter().map(|&v| v as u8).filter(|_| true)),
        (1, true) => w.extend(vals.iter().map(|&v| v as u16).filter(|_| true)),
        (2, true) => w.extend(vals.iter().map(|&v| v as u32).filter(|_| true)),
        (3, true) => w.extend(vals.iter().copied().filter(|_| true)),
        (_, true) => w.extend(vals.iter().map(|&v| v as usize).filter(|_| true)),
    }
}

/// flush bookkeeping for classification only: (flushes before close, an item straddled the buffer end, buffer exactly full at some flush)
struct FlushSim {
    buf_bits: usize,
    pos: usize,
    flushes: usize,
    straddle: bool,
    exact: bool,
}

impl FlushSim {
    fn new(buf_bits: usize) -> Self {
        FlushSim { buf_bits: ((buf_bits + 63) / 64 * 64).max(64), pos: 0, flushes: 0, straddle: false, exact: false }
    }
    fn push(&mut self, bits: usize) {
        if bits == 0 {
            return;
        }
        self.pos += bits;
        if self.pos >= self.buf_bits {
            self.flushes += 1;
            if self.pos > self.buf_bits {
                self.straddle = true;
            } else {
                self.exact = true;
            }
            self.pos -= self.buf_bits;
        }
    }
}

fn scratch(tag: &str, key: u64) -> std::path::PathBuf {
    std::env::temp_dir().join(format!("c12-{}-{}-{:016x}-{:?}", tag, std::process::id(), key, std::thread::current().id()).replace(['(', ')'], ""))
}

impl Prop for C12 {
    type Case = Case;
    const ID: &'static str = "C12";
    const RULE: &'static str = "IntVectorWriter (width 1..64; push and extend of all five item types, values wider than the width) and RawVectorWriter (push_bit / push_int with widths 0..64 in any mix; optional parent header closed through close_with_header) with a file name that is new or already holds a longer file, buffer sizes {default, 0, 1, smaller than one item, non-multiples of the width / of 64, multiples of 64, exactly the data size} and endings {close, close twice, drop, close then drop}: len() after every push equals the model count, the file is byte-identical to serializing the equivalent in-memory vector (after the parent header), a second close is Ok and changes nothing, is_open() is false afterwards. Non-trivial: at least one flush before close and an item carried over a flush boundary; distinct by case.";

    fn cases(tier: Tier) -> u32 {
        tier.pick(12_000, 150_000)
    }

    fn strategy(tier: Tier, _cfg: &str) -> BoxedStrategy<Case> {
        let max_items = tier.pick(160usize, 1200usize);
        let value = prop_oneof![3 => any::<u64>(), 1 => Just(!0u64), 1 => 0u64..4];
        let buf = prop_oneof![
            1 => Just(Buf::Default),
            2 => Just(Buf::Len(0)),
            2 => Just(Buf::Len(1)),
            4 => (0u32..40).prop_map(Buf::Len),
            3 => (0u32..2000).prop_map(Buf::Len),
            2 => (1u32..20).prop_map(|k| Buf::Len(64 * k)),
            2 => Just(Buf::ExactData),
        ];
        let ending = prop_oneof![3 => Just(Ending::Close), 2 => Just(Ending::CloseTwice), 3 => Just(Ending::Drop), 1 => Just(Ending::CloseThenDrop)];
        let int_push = prop_oneof![6 => value.clone().prop_map(IntPush::Push), 1 => (0u8..10, proptest::collection::vec(value.clone(), 0..20)).prop_map(|(t, v)| IntPush::Extend(t, v))];
        let raw_push = prop_oneof![2 => any::<bool>().prop_map(RawPush::Bit), 5 => (value, 0u8..=64).prop_map(|(v, w)| RawPush::Int(v, w))];
        prop_oneof![
            (any::<u8>(), buf.clone(), proptest::collection::vec(int_push, 0..max_items), ending.clone(), proptest::bool::weighted(0.25)).prop_map(|(width, buf, hist, ending, preexisting)| Case::Int { width, buf, hist, ending, preexisting }),
            (proptest::collection::vec(any::<u64>(), 0..3), buf, proptest::collection::vec(raw_push, 0..max_items), ending, proptest::bool::weighted(0.25)).prop_map(|(header, buf, hist, ending, preexisting)| Case::Raw { header, buf, hist, ending, preexisting }),
        ]
        .boxed()
    }

    fn run(case: &Case) -> CaseResult {
        let mut rep = Report::new();
        let key = hash_of(case);
        match case {
            Case::Int { width, buf, hist, ending, preexisting } => {
                let width = *width as usize % 64 + 1;
                // the equivalent in-memory vector
                let mut mem = IntVector::new(width).unwrap();
                for p in hist {
                    match p {
                        IntPush::Push(v) => mem.push(*v),
                        IntPush::Extend(t, vals) => {
                            for &v in vals {
                                mem.push(typed(*t, v));
                            }
                        }
                    }
                }
                let mut expected: Vec<u8> = Vec::new();
                mem.serialize(&mut expected).unwrap();
                let path = scratch("int", key);
                if *preexisting {
                    precreate(&path, expected.len());
                    rep.class("file-existed-before");
                }
                let buf_items = match buf {
                    Buf::Default => None,
                    Buf::Len(n) => Some(*n as usize),
                    Buf::ExactData => Some(mem.len()),
                };
                let mut sim = FlushSim::new(match buf_items {
                    None => RawVectorWriter::DEFAULT_BUFFER_SIZE,
                    Some(n) => n * width,
                });
                let res = (|| -> Result<(), Fail> {
                    let mut w = match buf_items {
                        None => IntVectorWriter::new(&path, width),
                        Some(n) => IntVectorWriter::with_buf_len(&path, width, n),
                    }
                    .map_err(|e| Fail::new("IntVectorWriter.new", format!("cannot create the writer: {}", e)))?;
                    ensure!(w.is_open() && w.is_empty() && w.len() == 0 && w.width() == width, "IntVectorWriter.new", "fresh writer state");
                    ensure_eq!(w.filename(), path.as_path(), "IntVectorWriter.filename", "filename()");
                    let mut count = 0usize;
                    for p in hist {
                        match p {
                            IntPush::Push(v) => {
                                w.push(*v);
                                count += 1;
                                sim.push(width);
                            }
                            IntPush::Extend(t, vals) => {
                                extend_writer(&mut w, *t, vals);
                                count += vals.len();
                                for _ in vals {
                                    sim.push(width);
                                }
                            }
                        }
                        ensure_eq!(w.len(), count, "IntVectorWriter.len", "len() after {} pushes", count);
                    }
                    match ending {
                        Ending::Close => {
                            w.close().map_err(|e| Fail::new("IntVectorWriter.close", format!("close failed: {}", e)))?;
                            ensure!(!w.is_open(), "IntVectorWriter.is_open", "is_open() after close");
                        }
                        Ending::CloseTwice | Ending::CloseThenDrop => {
                            w.close().map_err(|e| Fail::new("IntVectorWriter.close", format!("close failed: {}", e)))?;
                            let first = std::fs::read(&path).unwrap_or_default();
                            ensure!(first == expected, "IntVectorWriter.file", "file after close differs from the in-memory serialization ({} vs {} bytes)", first.len(), expected.len());
                            w.close().map_err(|e| Fail::new("IntVectorWriter.close-twice", format!("second close failed: {}", e)))?;
                            ensure!(!w.is_open(), "IntVectorWriter.is_open", "is_open() after close");
                            ensure_eq!(w.len(), count, "IntVectorWriter.len", "len() after close");
                        }
                        Ending::Drop => {}
                    }
                    drop(w);
                    let on_disk = std::fs::read(&path).map_err(|e| Fail::new("infra", format!("cannot read the file back: {}", e)))?;
                    ensure!(on_disk == expected, "IntVectorWriter.file", "file written with width {} buffer {:?} ending {:?} differs from the in-memory serialization of the same {} items ({} vs {} bytes; first difference at byte {:?})", width, buf, ending, count, on_disk.len(), expected.len(), on_disk.iter().zip(expected.iter()).position(|(a, b)| a != b));
                    Ok(())
                })();
                let _ = std::fs::remove_file(&path);
                res?;
                rep.class(&format!("int:width:{}", width));
            }
            Case::Raw { header, buf, hist, ending, preexisting } => {
                let mut mem = RawVector::new();
                for p in hist {
                    match p {
                        RawPush::Bit(b) => mem.push_bit(*b),
                        RawPush::Int(v, w) => unsafe { mem.push_int(*v, *w as usize) },
                    }
                }
                let mut expected: Vec<u8> = Vec::new();
                header.serialize_body(&mut expected).unwrap();
                mem.serialize(&mut expected).unwrap();
                let path = scratch("raw", key);
                if *preexisting {
                    precreate(&path, expected.len());
                    rep.class("file-existed-before");
                }
                let buf_bits = match buf {
                    Buf::Default => None,
                    Buf::Len(n) => Some(*n as usize),
                    Buf::ExactData => Some(mem.len()),
                };
                let mut sim = FlushSim::new(buf_bits.unwrap_or(RawVectorWriter::DEFAULT_BUFFER_SIZE));
                // a writer with a parent header is closed by its parent (close_with_header); drop-only endings need an empty header
                let ending = if !header.is_empty() && *ending == Ending::Drop { Ending::Close } else { *ending };
                let res = (|| -> Result<(), Fail> {
                    let mut h = header.clone();
                    let mut w = match buf_bits {
                        None => RawVectorWriter::new(&path, &mut h),
                        Some(n) => RawVectorWriter::with_buf_len(&path, &mut h, n),
                    }
                    .map_err(|e| Fail::new("RawVectorWriter.new", format!("cannot create the writer: {}", e)))?;
                    ensure!(w.is_open() && w.is_empty() && w.len() == 0, "RawVectorWriter.new", "fresh writer state");
                    ensure_eq!(w.filename(), path.as_path(), "RawVectorWriter.filename", "filename()");
                    let mut bits = 0usize;
                    for p in hist {
                        match p {
                            RawPush::Bit(b) => {
                                w.push_bit(*b);
                                bits += 1;
                                sim.push(1);
                            }
                            RawPush::Int(v, wd) => {
                                unsafe { w.push_int(*v, *wd as usize) };
                                bits += *wd as usize;
                                sim.push(*wd as usize);
                            }
                        }
                        ensure_eq!(w.len(), bits, "RawVectorWriter.len", "len() after {} bits", bits);
                    }
                    let close = |w: &mut RawVectorWriter| -> std::io::Result<()> {
                        if header.is_empty() {
                            w.close()
                        } else {
                            let mut h = header.clone();
                            w.close_with_header(&mut h)
                        }
                    };
                    match ending {
                        Ending::Close => {
                            close(&mut w).map_err(|e| Fail::new("RawVectorWriter.close", format!("close failed: {}", e)))?;
                            ensure!(!w.is_open(), "RawVectorWriter.is_open", "is_open() after close");
                        }
                        Ending::CloseTwice | Ending::CloseThenDrop => {
                            close(&mut w).map_err(|e| Fail::new("RawVectorWriter.close", format!("close failed: {}", e)))?;
                            let first = std::fs::read(&path).unwrap_or_default();
                            ensure!(first == expected, "RawVectorWriter.file", "file after close differs from the in-memory serialization ({} vs {} bytes)", first.len(), expected.len());
                            close(&mut w).map_err(|e| Fail::new("RawVectorWriter.close-twice", format!("second close failed: {}", e)))?;
                            w.close().map_err(|e| Fail::new("RawVectorWriter.close-twice", format!("close() on a closed writer failed: {}", e)))?;
                            ensure!(!w.is_open(), "RawVectorWriter.is_open", "is_open() after close");
                        }
                        Ending::Drop => {}
                    }
                    drop(w);
                    let on_disk = std::fs::read(&path).map_err(|e| Fail::new("infra", format!("cannot read the file back: {}", e)))?;
                    ensure!(on_disk == expected, "RawVectorWriter.file", "file written with header {:?} buffer {:?} ending {:?} differs from the in-memory serialization of the same {} bits ({} vs {} bytes; first difference at byte {:?})", header, buf, ending, bits, on_disk.len(), expected.len(), on_disk.iter().zip(expected.iter()).position(|(a, b)| a != b));
                    Ok(())
                })();
                let _ = std::fs::remove_file(&path);
                res?;
                rep.class("raw");
                rep.class_if(!header.is_empty(), "raw:parent-header");
                // reuse sim below
                rep.class_if(sim.flushes > 0, "flushed-before-close");
                rep.class_if(sim.straddle, "item-carried-over-flush");
                rep.class_if(sim.exact, "buffer-exactly-full");
                rep.class(&format!("ending:{:?}", ending));
                rep.class(&format!("buf:{}", match buf { Buf::Default => "default", Buf::Len(0) => "0", Buf::Len(_) => "len", Buf::ExactData => "exact-data" }));
                if sim.flushes > 0 && sim.straddle {
                    rep.nontrivial(key);
                }
                return Ok(rep);
            }
        }
        // classification for the integer writer (sim is not accessible here; recompute)
        if let Case::Int { width, buf, hist, ending, .. } = case {
            let width = *width as usize % 64 + 1;
            let items: usize = hist.iter().map(|p| match p { IntPush::Push(_) => 1, IntPush::Extend(_, v) => v.len() }).sum();
            let buf_bits = match buf {
                Buf::Default => RawVectorWriter::DEFAULT_BUFFER_SIZE,
                Buf::Len(n) => *n as usize * width,
                Buf::ExactData => items * width,
            };
            let mut sim = FlushSim::new(buf_bits);
            for _ in 0..items {
                sim.push(width);
            }
            rep.class_if(sim.flushes > 0, "flushed-before-close");
            rep.class_if(sim.straddle, "item-carried-over-flush");
            rep.class_if(sim.exact, "buffer-exactly-full");
            rep.class(&format!("ending:{:?}", ending));
            rep.class(&format!("buf:{}", match buf { Buf::Default => "default", Buf::Len(0) => "0", Buf::Len(_) => "len", Buf::ExactData => "exact-data" }));
            rep.class_if(hist.iter().any(|p| matches!(p, IntPush::Extend(_, _))), "int:extend");
            if sim.flushes > 0 && sim.straddle {
                rep.nontrivial(key);
            }
        }
        Ok(rep)
    }

    fn health(classes: &BTreeMap<String, u64>, _tier: Tier) -> Result<(), String> {
        let widths = classes.keys().filter(|k| k.starts_with("int:width:")).count();
        if widths < 64 {
            return Err(format!("only {} of 64 item widths were generated", widths));
        }
        for c in ["raw", "raw:parent-header", "flushed-before-close", "item-carried-over-flush", "buffer-exactly-full", "ending:Close", "ending:CloseTwice", "ending:Drop", "ending:CloseThenDrop", "buf:default", "buf:0", "buf:exact-data", "int:extend", "file-existed-before"] {
            if classes.get(c).copied().unwrap_or(0) == 0 {
                return Err(format!("no generated case reached class {}", c));
            }
        }
        Ok(())
    }

    fn sanitize(case: &mut Case) {
        // byte-decoded (fuzzer) cases: bounded buffers and histories
        match case {
            Case::Int { buf, hist, .. } => {
                if let Buf::Len(l) = buf {
                    *l %= 1 << 14;
                }
                hist.truncate(300);
                for h in hist.iter_mut() {
                    if let IntPush::Extend(_, v) = h {
                        v.truncate(64);
                    }
                }
            }
            Case::Raw { header, buf, hist, .. } => {
                header.truncate(8);
                if let Buf::Len(l) = buf {
                    *l %= 1 << 18;
                }
                hist.truncate(600);
                for h in hist.iter_mut() {
                    // push_int is only defined for widths up to 64
                    if let RawPush::Int(_, w) = h {
                        *w %= 65;
                    }
                }
            }
        }
    }

    fn assumptions() -> Vec<String> {
        vec![
            "a RawVectorWriter created with a non-empty parent header is closed with close_with_header (as a parent writer does); drop-only endings are used with an empty header or through IntVectorWriter".into(),
            "the flush bookkeeping used for the class histogram (buffer rounded up to a positive multiple of 64 bits) mirrors the documented buffer rule and is not part of the oracle".into(),
        ]
    }
}

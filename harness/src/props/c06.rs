//! C06 — serialization round trip is the identity and sizes are exact.

use crate::anyval::{val_spec, Erased, ValSpec};
use crate::engine::{CaseResult, Prop, Report, Tier};
use crate::util::hash_of;
use crate::{ensure, ensure_eq};
use proptest::prelude::*;
use serde::{Deserialize, Serialize};
use simple_sds::int_vector::IntVector;
use simple_sds::ops::Vector;
use simple_sds::raw_vector::RawVector;
use std::collections::BTreeMap;
use std::io::Read;

pub struct C06;

#[derive(Clone, Debug, Serialize, Deserialize, Hash)]
pub struct Case {
    pub vals: Vec<ValSpec>,
    /// sizes of the short reads the stream reader returns (cycled; empty = never short)
    pub chunks: Vec<u8>,
    pub via_file: bool,
}

/// A reader over a byte slice that returns data in short, generated chunk sizes (legal for `io::Read`).
pub struct ChunkedReader<'a> {
    pub data: &'a [u8],
    pub pos: usize,
    pub chunks: &'a [u8],
    pub k: usize,
}

impl<'a> ChunkedReader<'a> {
    pub fn new(data: &'a [u8], chunks: &'a [u8]) -> Self {
        ChunkedReader { data, pos: 0, chunks, k: 0 }
    }
}

impl<'a> Read for ChunkedReader<'a> {
    fn read(&mut self, buf: &mut [u8]) -> std::io::Result<usize> {
        let mut n = buf.len().min(self.data.len() - self.pos);
        if !self.chunks.is_empty() && n > 0 {
            let c = (self.chunks[self.k % self.chunks.len()] as usize % 23) + 1;
            self.k += 1;
            n = n.min(c);
        }
        buf[..n].copy_from_slice(&self.data[self.pos..self.pos + n]);
        self.pos += n;
        Ok(n)
    }
}

pub fn ser_bytes(x: &dyn Erased) -> Vec<u8> {
    let mut v: Vec<u8> = Vec::new();
    x.ser(&mut v).expect("serializing into a Vec cannot fail");
    v
}

impl Prop for C06 {
    type Case = Case;
    const ID: &'static str = "C06";
    const RULE: &'static str = "1..6 values of every Serialize type (integers, pairs, vectors of them, byte vectors, strings incl. arbitrary Unicode, raw/int vectors, plain bitvectors with each of the 8 support subsets, rank/select supports, sparse vectors incl. huge universes and multisets, run-length vectors, wavelet matrix and core; each plain, None, Some, Some(None), Some(Some)) written back to back into one stream; oracle: bytes written = 8*size_in_elements = size_in_bytes, header+body = serialize, sequential load through a reader that returns short reads gives equal values with equal answers to a fixed query plan and leaves the cursor exactly at each value's end, size_by_params matches, serialize_to/load_from agree with the in-memory bytes. Non-trivial: a value that is not a bare integer and not empty/absent; distinct by serialized bytes.";

    fn cases(tier: Tier) -> u32 {
        tier.pick(40_000, 400_000)
    }

    fn strategy(tier: Tier, _cfg: &str) -> BoxedStrategy<Case> {
        let max_bits = tier.pick(100_000usize, 300_000usize);
        (proptest::collection::vec(val_spec(max_bits), 1..6), proptest::collection::vec(any::<u8>(), 0..5), proptest::bool::weighted(0.15)).prop_map(|(vals, chunks, via_file)| Case { vals, chunks, via_file }).boxed()
    }

    fn run(case: &Case) -> CaseResult {
        let mut rep = Report::new();
        let values: Vec<Box<dyn Erased>> = case.vals.iter().map(|s| s.build()).collect();
        let mut stream: Vec<u8> = Vec::new();
        let mut ends: Vec<usize> = Vec::new();
        for (spec, x) in case.vals.iter().zip(values.iter()) {
            let name = x.type_name();
            let bytes = ser_bytes(x.as_ref());
            ensure_eq!(bytes.len(), 8 * x.size_elems(), "size_in_elements", "{}: bytes written vs 8*size_in_elements()", name);
            ensure_eq!(x.size_bytes(), bytes.len(), "size_in_bytes", "{}: size_in_bytes() vs bytes written", name);
            let mut hb: Vec<u8> = Vec::new();
            x.ser_header(&mut hb).expect("header");
            x.ser_body(&mut hb).expect("body");
            ensure!(hb == bytes, "header+body", "{}: serialize_header + serialize_body differs from serialize", name);
            if let Some(rv) = x.as_any().downcast_ref::<RawVector>() {
                ensure_eq!(RawVector::size_by_params(rv.len()), x.size_elems(), "RawVector.size_by_params", "size_by_params({})", rv.len());
            }
            if let Some(iv) = x.as_any().downcast_ref::<IntVector>() {
                ensure_eq!(IntVector::size_by_params(iv.len(), iv.width()), x.size_elems(), "IntVector.size_by_params", "size_by_params({}, {})", iv.len(), iv.width());
            }
            // alone
            let mut r = ChunkedReader::new(&bytes, &case.chunks);
            let loaded = match x.load_same(&mut r) {
                Ok(v) => v,
                Err(e) => return Err(crate::engine::Fail::new("load", format!("{}: load of freshly serialized bytes failed: {}", name, e))),
            };
            ensure_eq!(r.pos, bytes.len(), "load.consumed", "{}: bytes consumed by load", name);
            ensure!(loaded.eq_dyn(x.as_ref()), "load.eq", "{}: loaded value != original: {} vs {}", name, loaded.debug(), x.debug());
            ensure_eq!(loaded.probe(), x.probe(), "load.answers", "{}: loaded value answers the query plan differently", name);
            stream.extend_from_slice(&bytes);
            ends.push(stream.len());
            rep.class(&spec.type_tag());
            if !spec.is_trivial() {
                rep.nontrivial(hash_of(&bytes));
            }
        }
        // back to back in one stream
        let mut r = ChunkedReader::new(&stream, &case.chunks);
        for (k, x) in values.iter().enumerate() {
            let name = x.type_name();
            let loaded = match x.load_same(&mut r) {
                Ok(v) => v,
                Err(e) => return Err(crate::engine::Fail::new("stream.load", format!("value {} ({}) in a stream of {}: load failed: {}", k, name, values.len(), e))),
            };
            ensure_eq!(r.pos, ends[k], "stream.consumed", "stream position after value {} ({})", k, name);
            ensure!(loaded.eq_dyn(x.as_ref()), "stream.eq", "value {} ({}) loaded from the stream != original", k, name);
        }
        rep.class(&format!("stream-of-{}", values.len()));
        rep.class_if(!case.chunks.is_empty(), "short-reads");
        if case.via_file {
            let path = std::env::temp_dir().join(format!("c06-{}-{:016x}", std::process::id(), hash_of(&(std::thread::current().id(), &stream))));
            let x = &values[0];
            let res = (|| -> Result<(), crate::engine::Fail> {
                x.to_file(&path).map_err(|e| crate::engine::Fail::new("infra", format!("serialize_to failed: {}", e)))?;
                let on_disk = std::fs::read(&path).map_err(|e| crate::engine::Fail::new("infra", format!("read back failed: {}", e)))?;
                ensure!(on_disk == ser_bytes(x.as_ref()), "serialize_to", "{}: file written by serialize_to differs from the in-memory serialization", x.type_name());
                let loaded = x.from_file_same(&path).map_err(|e| crate::engine::Fail::new("load_from", format!("{}: load_from failed: {}", x.type_name(), e)))?;
                ensure!(loaded.eq_dyn(x.as_ref()), "load_from", "{}: load_from(serialize_to(x)) != x", x.type_name());
                // the library's public self-test states the same round trip: it must not panic on a value that just passed
                if let Err((loc, msg)) = crate::engine::catch(|| x.lib_selftest(&format!("c06-selftest-{}", std::process::id()))) {
                    return Err(crate::engine::Fail::new("serialize::test", format!("{}: serialize::test panicked at {}: {}", x.type_name(), loc, msg)));
                }
                Ok(())
            })();
            let _ = std::fs::remove_file(&path);
            res?;
            rep.class("via-file");
        }
        Ok(rep)
    }

    fn health(classes: &BTreeMap<String, u64>, _tier: Tier) -> Result<(), String> {
        for c in ["RawVector", "IntVector", "SparseVector", "SparseVector(big)", "SparseVector(multiset)", "RLVector", "WMCore", "WaveletMatrix", "String", "Vec<u8>", "Some:RLVector", "SomeSome:IntVector", "SomeNone:String", "None:WaveletMatrix", "short-reads", "via-file", "stream-of-5"] {
            if classes.get(c).copied().unwrap_or(0) == 0 {
                return Err(format!("no generated case reached class {}", c));
            }
        }
        for m in 0..8 {
            if classes.get(&format!("BitVector[supports={}]", m)).copied().unwrap_or(0) == 0 {
                return Err(format!("no plain BitVector with support subset {}", m));
            }
        }
        Ok(())
    }

    fn assumptions() -> Vec<String> {
        vec!["equality is the types' own PartialEq; in addition a fixed query plan is answered identically by the loaded value".into(), "Option nesting is generated to depth 2".into()]
    }
}

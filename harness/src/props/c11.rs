//! C11 — conversions between bitvector types preserve the bits and are canonical.

use crate::engine::{CaseResult, Fail, Prop, Report, Tier};
use crate::gen::{bits_spec, BitsSpec};
use crate::model::{check_bitvec, Bits, Plan, SetModel};
use crate::props::c01::{build_route, raw_by_push_bit};
use crate::props::c02::build_sparse;
use crate::props::c03::build_rl;
use crate::util::{hash_of, mix};
use crate::{ensure, ensure_eq};
use proptest::prelude::*;
use serde::{Deserialize, Serialize};
use simple_sds::bit_vector::BitVector;
use simple_sds::ops::{BitVec, Select};
use simple_sds::rl_vector::{RLBuilder, RLVector};
use simple_sds::serialize::Serialize as Sds;
use simple_sds::sparse_vector::SparseVector;
use std::collections::BTreeMap;

pub struct C11;

#[derive(Clone, Debug, Serialize, Deserialize, Hash)]
pub struct Case {
    pub bits: BitsSpec,
    /// source type (0 plain, 1 sparse, 2 run-length) followed by 1..3 target types
    pub chain: Vec<u8>,
    /// for each conversion: copy_bit_vec (true) or From (false)
    pub via_copy: Vec<bool>,
    /// how the source and the reference structures are built (route / decomposition selectors)
    pub route_src: u8,
    pub route_ref: u8,
    pub split: Vec<u8>,
    pub redundant_set_len: bool,
}

pub enum AnyBv {
    B(BitVector),
    S(SparseVector),
    R(RLVector),
}

impl AnyBv {
    fn kind(&self) -> u8 {
        match self {
            AnyBv::B(_) => 0,
            AnyBv::S(_) => 1,
            AnyBv::R(_) => 2,
        }
    }
    fn name(&self) -> &'static str {
        ["BitVector", "SparseVector", "RLVector"][self.kind() as usize]
    }
    fn convert(self, to: u8, copy: bool) -> AnyBv {
        match (self, to % 3, copy) {
            (AnyBv::B(x), 0, _) => AnyBv::B(x),
            (AnyBv::S(x), 1, _) => AnyBv::S(x),
            (AnyBv::R(x), 2, _) => AnyBv::R(x),
            (AnyBv::B(x), 1, true) => AnyBv::S(SparseVector::copy_bit_vec(&x)),
            (AnyBv::B(x), 1, false) => AnyBv::S(SparseVector::from(x)),
            (AnyBv::B(x), _, true) => AnyBv::R(RLVector::copy_bit_vec(&x)),
            (AnyBv::B(x), _, false) => AnyBv::R(RLVector::from(x)),
            (AnyBv::S(x), 0, true) => AnyBv::B(BitVector::copy_bit_vec(&x)),
            (AnyBv::S(x), 0, false) => AnyBv::B(BitVector::from(x)),
            (AnyBv::S(x), _, true) => AnyBv::R(RLVector::copy_bit_vec(&x)),
            (AnyBv::S(x), _, false) => AnyBv::R(RLVector::from(x)),
            (AnyBv::R(x), 0, true) => AnyBv::B(BitVector::copy_bit_vec(&x)),
            (AnyBv::R(x), 0, false) => AnyBv::B(BitVector::from(x)),
            (AnyBv::R(x), _, true) => AnyBv::S(SparseVector::copy_bit_vec(&x)),
            (AnyBv::R(x), _, false) => AnyBv::S(SparseVector::from(x)),
        }
    }
    fn bytes(&self) -> Vec<u8> {
        let mut v = Vec::new();
        match self {
            AnyBv::B(x) => x.serialize(&mut v),
            AnyBv::S(x) => x.serialize(&mut v),
            AnyBv::R(x) => x.serialize(&mut v),
        }
        .expect("serialize into a Vec");
        v
    }
    fn equals(&self, other: &AnyBv) -> bool {
        match (self, other) {
            (AnyBv::B(a), AnyBv::B(b)) => a == b,
            (AnyBv::S(a), AnyBv::S(b)) => a == b,
            (AnyBv::R(a), AnyBv::R(b)) => a == b,
            _ => false,
        }
    }
}

/// RL vector by one of several builder decompositions of the same run list.
pub fn rl_by_decomposition(bits: &Bits, which: u8, split: &[u8], redundant: bool) -> RLVector {
    let runs = bits.runs();
    let n = Some(bits.len);
    match which % 6 {
        0 => build_rl(n, &runs, &[], false, false),
        1 => build_rl(n, &runs, split, redundant, false),
        2 => build_rl(n, &runs, split, redundant, true),
        3 => {
            let mut b = RLBuilder::new();
            for (k, p) in bits.positions().into_iter().enumerate() {
                // the gap in front of a bit may be made by set_len (then the bit is set exactly at len())
                if redundant && k % 2 == 0 && p > b.len() {
                    b.set_len(p);
                }
                unsafe { b.set_bit_unchecked(p) };
            }
            b.set_len(bits.len);
            RLVector::from(b)
        }
        4 => {
            // through try_set one bit at a time
            let mut b = RLBuilder::new();
            for p in bits.positions() {
                b.try_set(p, 1).expect("try_set");
            }
            b.set_len(bits.len);
            RLVector::from(b)
        }
        _ => RLVector::from(BitVector::from(raw_by_push_bit(bits))),
    }
}

pub fn build_kind(bits: &Bits, kind: u8, route: u8, split: &[u8], redundant: bool) -> AnyBv {
    match kind % 3 {
        // the raw-vector routes (push, set, clear, push_int chunks, pushes with popped junk, complement()) and the iterator routes
        0 => AnyBv::B(build_route(bits, [0u8, 1, 2, 3, 4, 8, 9, 10][route as usize % 8], split)),
        1 => AnyBv::S(build_sparse(bits.len, &bits.positions(), route % 4)),
        _ => AnyBv::R(rl_by_decomposition(bits, route, split, redundant)),
    }
}

fn check_content(x: &AnyBv, bits: &Bits, model: &SetModel) -> Result<(), Fail> {
    let plan = if bits.len <= 1500 { Plan::all(model) } else { Plan::sampled(model, 150, &[], &[], 200_000) };
    match x {
        AnyBv::B(v) => {
            ensure_eq!(v.len(), bits.len, "BitVector.len", "length after the conversion chain");
            let ones: Vec<usize> = v.one_iter().map(|p| p.1).collect();
            ensure!(ones == model.ones, "BitVector.positions", "set positions after the conversion chain differ from the source bits");
            Ok(())
        }
        AnyBv::S(v) => check_bitvec(v, model, &plan, "SparseVector(converted)"),
        AnyBv::R(v) => check_bitvec(v, model, &plan, "RLVector(converted)"),
    }
}

impl Prop for C11 {
    type Case = Case;
    const ID: &'static str = "C11";
    const RULE: &'static str = "bit sequences by regime (up to 70 000 bits quick) x source type x conversion chains of length 1..3 over {BitVector, SparseVector, RLVector}, each step through From or copy_bit_vec x construction routes of the source (raw vector by push/set/push_int, bool iterators with and without size hint; sparse builder set/try_set/extend/try_from_iter; run-length builder with maximal runs, runs split into adjacent pieces, unchecked variants, one bit at a time through set_bit_unchecked or try_set, redundant set_len calls, conversion from a raw vector): the end of the chain must have the source's length and set positions, be == to and serialize byte-identically to the target type's own builder output built by a different route. Multisets are excluded. Non-trivial: >= 2 runs and a chain with >= 2 conversions; distinct by (bits, chain).";

    fn cases(tier: Tier) -> u32 {
        tier.pick(16_000, 150_000)
    }

    fn strategy(tier: Tier, _cfg: &str) -> BoxedStrategy<Case> {
        let max_bits = tier.pick(70_000usize, 400_000usize);
        (bits_spec(max_bits), proptest::collection::vec(0u8..3, 2..5), proptest::collection::vec(any::<bool>(), 3), any::<u8>(), any::<u8>(), proptest::collection::vec(0u8..4, 0..4), any::<bool>())
            .prop_map(|(bits, chain, via_copy, route_src, route_ref, split, redundant_set_len)| Case { bits, chain, via_copy, route_src, route_ref, split, redundant_set_len })
            .boxed()
    }

    fn exhaustive(_tier: Tier, shard: usize, nshards: usize, emit: &mut dyn FnMut(Case) -> bool) {
        // all bit strings up to length 8 x all (source, target) pairs
        let mut idx = 0usize;
        for len in 0..=8usize {
            for v in 0u32..(1u32 << len) {
                let bools: Vec<bool> = (0..len).map(|i| (v >> i) & 1 == 1).collect();
                for s in 0u8..3 {
                    for t in 0u8..3 {
                        idx += 1;
                        if (idx - 1) % nshards != shard {
                            continue;
                        }
                        let case = Case { bits: BitsSpec::Bools(bools.clone()), chain: vec![s, t], via_copy: vec![idx % 2 == 0; 3], route_src: (idx % 7) as u8, route_ref: (idx % 5) as u8, split: vec![(idx % 4) as u8], redundant_set_len: idx % 3 == 0 };
                        if !emit(case) {
                            return;
                        }
                        // the shortest strings (empty, single bit, ...) through every construction route of source and reference
                        if len <= 3 {
                            for r in 0..48u8 {
                                let case = Case { bits: BitsSpec::Bools(bools.clone()), chain: vec![s, t], via_copy: vec![r % 2 == 0; 3], route_src: r % 8, route_ref: r / 8, split: vec![r % 4], redundant_set_len: r % 3 == 0 };
                                if !emit(case) {
                                    return;
                                }
                            }
                        }
                    }
                }
            }
        }
    }

    fn exhaustive_note(_tier: Tier) -> Option<String> {
        Some("all bit strings of length <= 8 x all 9 (source type, target type) pairs; strings of length <= 3 x all pairs x 8 source routes x 6 reference routes".into())
    }

    fn run(case: &Case) -> CaseResult {
        let mut rep = Report::new();
        let bits = case.bits.expand();
        let model = SetModel::from_bits(&bits);
        let src_kind = case.chain[0] % 3;
        let mut cur = build_kind(&bits, src_kind, case.route_src, &case.split, case.redundant_set_len);
        let mut label = cur.name().to_string();
        let mut conversions = 0;
        for (k, &to) in case.chain[1..].iter().enumerate() {
            if to % 3 != cur.kind() {
                conversions += 1;
            }
            cur = cur.convert(to, case.via_copy.get(k).copied().unwrap_or(false));
            label.push_str("->");
            label.push_str(cur.name());
        }
        check_content(&cur, &bits, &model)?;
        // canonical: equal to the target type's own builder output (built by another route) and byte-identical
        let reference = build_kind(&bits, cur.kind(), case.route_ref, &[], false);
        ensure!(cur.equals(&reference), "canonical.eq", "{}: the result of the chain != the {} built directly from the same {} bits (source route {}, reference route {})", label, cur.name(), bits.len, case.route_src, case.route_ref);
        ensure!(cur.bytes() == reference.bytes(), "canonical.bytes", "{}: the result of the chain serializes differently from the {} built directly", label, cur.name());
        // all run-length decompositions agree
        if cur.kind() == 2 && bits.len <= 20_000 {
            for w in 0..6u8 {
                let other = AnyBv::R(rl_by_decomposition(&bits, w, &case.split, case.redundant_set_len));
                ensure!(other.equals(&cur), "canonical.rl-decomposition", "RLVector built by decomposition {} != the result of {}", w, label);
            }
        }
        rep.class(&label);
        let nruns = bits.runs().len();
        rep.class_if(nruns >= 2 && conversions >= 2, "chain>=2-conversions");
        if nruns >= 2 && conversions >= 2 {
            rep.nontrivial(mix(bits.digest(), hash_of(&case.chain)));
        }
        Ok(rep)
    }

    fn health(classes: &BTreeMap<String, u64>, _tier: Tier) -> Result<(), String> {
        for c in ["BitVector->SparseVector", "BitVector->RLVector", "SparseVector->BitVector", "SparseVector->RLVector", "RLVector->BitVector", "RLVector->SparseVector", "chain>=2-conversions"] {
            if classes.get(c).copied().unwrap_or(0) == 0 {
                return Err(format!("no generated case reached class {}", c));
            }
        }
        Ok(())
    }

    fn assumptions() -> Vec<String> {
        vec!["conversions are only applied to sets (multisets are not claimed)".into(), "plain bitvectors are compared without support structures (conversions do not build them)".into()]
    }
}

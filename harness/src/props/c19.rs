//! C19 — support structures are optional, rebuildable and never change answers.

use crate::anyval::{val_spec, Leaf, ValSpec};
use crate::docfmt;
use crate::engine::{CaseResult, Fail, Prop, Report, Tier};
use crate::gen::{bits_spec, BitsSpec};
use crate::model::{Bits, Model, SetModel};
use crate::props::c06::{ser_bytes, ChunkedReader};
use crate::util::{frac, hash_of, mix};
use crate::{ensure, ensure_eq};
use proptest::prelude::*;
use serde::{Deserialize, Serialize};
use simple_sds::bit_vector::BitVector;
use simple_sds::ops::{BitVec, PredSucc, Rank, Select, SelectZero};
use simple_sds::raw_vector::RawVector;
use simple_sds::serialize::{self, Serialize as Sds};
use std::collections::BTreeMap;
use std::io::Read;

pub struct C19;

#[derive(Clone, Copy, Debug, Serialize, Deserialize, Hash, PartialEq, Eq)]
pub enum Op {
    EnableRank,
    EnableSelect,
    EnableSelectZero,
    EnablePredSucc,
    SerLoad,
    Clone,
}

#[derive(Clone, Debug, Serialize, Deserialize, Hash)]
pub struct Case {
    pub bits: BitsSpec,
    pub hist: Vec<Op>,
    /// a value for the skip_option / composite-without-supports part
    pub val: ValSpec,
    pub chunks: Vec<u8>,
    pub extra: Vec<u16>,
}

const RANK: u8 = 1;
const SELECT: u8 = 2;
const SELECT_ZERO: u8 = 4;

fn supports_of(bv: &BitVector) -> u8 {
    (bv.supports_rank() as u8) | ((bv.supports_select() as u8) << 1) | ((bv.supports_select_zero() as u8) << 2)
}

/// Ask only the queries whose support structure is enabled.
fn check_partial(bv: &BitVector, model: &SetModel, mask: u8, args: &[usize], step: usize) -> Result<(), Fail> {
    let n = model.n;
    ensure_eq!(bv.len(), n, "BitVector.len", "len() after step {}", step);
    ensure_eq!(bv.count_ones(), model.m(), "BitVector.count_ones", "count_ones() after step {}", step);
    ensure_eq!(bv.count_zeros(), model.zeros(), "BitVector.count_zeros", "count_zeros() after step {}", step);
    for &i in args {
        if i < n {
            ensure_eq!(bv.get(i), model.get(i), "BitVector.get", "get({}) after step {}", i, step);
        }
        if mask & RANK != 0 {
            ensure_eq!(bv.rank(i), model.rank(i), "BitVector.rank", "rank({}) after step {} with supports {:03b}", i, step, mask);
        }
        if mask & SELECT != 0 {
            ensure_eq!(bv.select(i), model.select(i), "BitVector.select", "select({}) after step {} with supports {:03b}", i, step, mask);
            ensure_eq!(bv.select_iter(i).next(), model.select(i).map(|p| (i, p)), "BitVector.select_iter", "select_iter({}) after step {}", i, step);
        }
        if mask & SELECT_ZERO != 0 {
            ensure_eq!(bv.select_zero(i), model.select_zero(i), "BitVector.select_zero", "select_zero({}) after step {} with supports {:03b}", i, step, mask);
        }
        if mask & RANK != 0 && mask & SELECT != 0 {
            ensure_eq!(bv.predecessor(i).next(), model.predecessor(i), "BitVector.predecessor", "predecessor({}) after step {}", i, step);
            ensure_eq!(bv.successor(i).next(), model.successor(i), "BitVector.successor", "successor({}) after step {}", i, step);
        }
    }
    // iterators never need supports
    let head: Vec<(usize, usize)> = bv.one_iter().take(20).collect();
    let want: Vec<(usize, usize)> = model.ones.iter().copied().enumerate().take(20).collect();
    ensure!(head == want, "BitVector.one_iter", "one_iter() head after step {}", step);
    let head: Vec<(usize, usize)> = bv.zero_iter().take(5).collect();
    let want: Vec<(usize, usize)> = (0..5).filter_map(|r| model.select_zero(r).map(|p| (r, p))).collect();
    ensure!(head == want, "BitVector.zero_iter", "zero_iter() head after step {}", step);
    Ok(())
}

fn args_for(model: &SetModel, extra: &[u16]) -> Vec<usize> {
    let n = model.n;
    let mut v = vec![0, 1, 63, 64, 65, 511, 512, 513, 4095, 4096, 4097, n / 2, n.saturating_sub(1), n, n + 1];
    for &e in extra {
        v.push(frac(e, n + 1));
    }
    let m = model.m();
    if m > 0 {
        for k in 0..8 {
            let p = model.ones[(m - 1) * k / 8];
            v.push(p);
            v.push(p + 1);
        }
    }
    v.sort_unstable();
    v.dedup();
    v
}

impl Prop for C19 {
    type Case = Case;
    const ID: &'static str = "C19";
    const RULE: &'static str = "bit sequences by regime x histories of 0..12 steps over {enable_rank, enable_select, enable_select_zero, enable_pred_succ, serialize+load, clone}: after every step supports_* equals the model set (supports_pred_succ <=> rank and select), the raw bits are unchanged, every enabled query is correct, load reports exactly the written subset and an equal value; finally enabling the rest gives a value == a fresh vector with everything enabled (any order, repeated enables). Composite structures (sparse vector, wavelet matrix and core, bitvectors) re-encoded with all embedded supports stripped must load == the original and answer the same query plan. Option<any value> ++ marker: skip_option leaves the reader exactly at the marker (also with short reads), absent_option writes one zero element that loads as None, absent_option_size() == 1. Non-trivial: a load with a proper non-empty support subset followed by an enable; distinct by (bits, history).";

    fn cases(tier: Tier) -> u32 {
        tier.pick(60_000, 400_000)
    }

    fn strategy(tier: Tier, _cfg: &str) -> BoxedStrategy<Case> {
        let max_bits = tier.pick(100_000usize, 400_000usize);
        let op = prop_oneof![1 => Just(Op::EnableRank), 1 => Just(Op::EnableSelect), 1 => Just(Op::EnableSelectZero), 1 => Just(Op::EnablePredSucc), 3 => Just(Op::SerLoad), 1 => Just(Op::Clone)];
        (bits_spec(max_bits), proptest::collection::vec(op, 0..12), val_spec(20_000), proptest::collection::vec(any::<u8>(), 0..3), proptest::collection::vec(any::<u16>(), 0..12))
            .prop_map(|(bits, hist, val, chunks, extra)| Case { bits, hist, val, chunks, extra })
            .boxed()
    }

    fn run(case: &Case) -> CaseResult {
        let mut rep = Report::new();
        let bits: Bits = case.bits.expand();
        let model = SetModel::from_bits(&bits);
        let args = args_for(&model, &case.extra);
        let mut bv = BitVector::from(crate::props::c01::raw_by_set_bit(&bits));
        let mut mask: u8 = 0;
        let mut loaded_with_proper_subset = false;
        let mut nontrivial = false;
        let mut subsets_written: Vec<u8> = Vec::new();
        check_partial(&bv, &model, mask, &args, 0)?;
        for (k, op) in case.hist.iter().enumerate() {
            let step = k + 1;
            match op {
                Op::EnableRank => {
                    bv.enable_rank();
                    nontrivial |= loaded_with_proper_subset && mask & RANK == 0;
                    mask |= RANK;
                }
                Op::EnableSelect => {
                    bv.enable_select();
                    nontrivial |= loaded_with_proper_subset && mask & SELECT == 0;
                    mask |= SELECT;
                }
                Op::EnableSelectZero => {
                    bv.enable_select_zero();
                    nontrivial |= loaded_with_proper_subset && mask & SELECT_ZERO == 0;
                    mask |= SELECT_ZERO;
                }
                Op::EnablePredSucc => {
                    bv.enable_pred_succ();
                    nontrivial |= loaded_with_proper_subset && mask & (RANK | SELECT) != (RANK | SELECT);
                    mask |= RANK | SELECT;
                }
                Op::SerLoad => {
                    let mut bytes: Vec<u8> = Vec::new();
                    bv.serialize(&mut bytes).map_err(|e| Fail::new("serialize", format!("serialize failed: {}", e)))?;
                    let mut r = ChunkedReader::new(&bytes, &case.chunks);
                    let loaded = BitVector::load(&mut r).map_err(|e| Fail::new("BitVector.load", format!("loading a bitvector written with supports {:03b} failed at step {}: {}", mask, step, e)))?;
                    ensure_eq!(r.pos, bytes.len(), "BitVector.load", "bytes consumed at step {}", step);
                    ensure_eq!(supports_of(&loaded), mask, "BitVector.load.supports", "supports reported after loading a file written with supports {:03b} (step {})", mask, step);
                    ensure!(loaded == bv, "BitVector.load.eq", "loaded bitvector != original at step {} (supports {:03b})", step, mask);
                    bv = loaded;
                    subsets_written.push(mask);
                    if mask != 0 && mask != 7 {
                        loaded_with_proper_subset = true;
                    }
                }
                Op::Clone => {
                    // clone(), or clone_from() onto a vector with other bits and other supports
                    let c = if step % 2 == 0 {
                        bv.clone()
                    } else {
                        let mut t = BitVector::from(RawVector::with_len(bits.len / 2 + 131, true));
                        t.enable_rank();
                        t.enable_select_zero();
                        t.clone_from(&bv);
                        t
                    };
                    ensure!(c == bv, "BitVector.clone", "clone / clone_from != original");
                    ensure_eq!(c.count_ones(), bv.count_ones(), "BitVector.clone", "count_ones of the clone");
                    bv = c;
                }
            }
            ensure_eq!(supports_of(&bv), mask, "BitVector.supports", "supports_* after step {} ({:?})", step, op);
            ensure_eq!(bv.supports_pred_succ(), mask & (RANK | SELECT) == (RANK | SELECT), "BitVector.supports_pred_succ", "supports_pred_succ() after step {}", step);
            let raw: &RawVector = bv.as_ref();
            let words: &[u64] = raw.as_ref();
            ensure!(raw.len() == bits.len && words == &bits.words[..], "BitVector.bits-changed", "the bits changed at step {} ({:?})", step, op);
            check_partial(&bv, &model, mask, &args, step)?;
        }
        // enabling the rest in a generated order, with repeats, gives the fully enabled reference
        let mut reference = BitVector::from(crate::props::c01::raw_by_push_bit(&bits));
        reference.enable_rank();
        reference.enable_select();
        reference.enable_select_zero();
        let order = case.extra.first().copied().unwrap_or(0) % 6;
        let seq: [u8; 3] = [[0, 1, 2], [0, 2, 1], [1, 0, 2], [1, 2, 0], [2, 0, 1], [2, 1, 0]][order as usize];
        for w in seq.iter().chain(seq.iter()) {
            crate::props::c01::enable(&mut bv, *w);
        }
        bv.enable_pred_succ();
        ensure!(bv == reference, "BitVector.enable-canonical", "after history {:?} and enabling the rest in order {:?}, the vector != a fresh vector with everything enabled", case.hist, seq);
        ensure_eq!(supports_of(&bv), 7, "BitVector.supports", "all supports after enabling everything");
        check_partial(&bv, &model, 7, &args, usize::MAX)?;
        for m in subsets_written {
            rep.class(&format!("written-subset:{:03b}", m));
        }
        crate::gen::classify_bits(&bits, &mut rep.classes);
        if nontrivial {
            rep.nontrivial(mix(bits.digest(), hash_of(&case.hist)));
        }

        // composite structures from files without embedded support structures
        let x = case.val.build();
        let lib_bytes = ser_bytes(x.as_ref());
        if case.val.opt % 5 == 0 || case.val.opt % 5 == 2 {
            let in_option = case.val.opt % 5 == 2;
            let all = docfmt::to_elements(&lib_bytes).map_err(|e| Fail::new("harness", e))?;
            // Some(x) = length element + x
            let elems: Vec<u64> = if in_option { all[1..].to_vec() } else { all };
            // which support structures each embedded bitvector keeps: none at all in half of the cases, otherwise a generated
            // subset per bitvector (the format makes every one of them independently optional)
            let keep: Vec<u8> = if case.extra.len() % 2 == 0 { Vec::new() } else { case.extra.iter().map(|&b| (b % 8) as u8).collect() };
            let mixed = keep.iter().any(|&k| k != 0);
            let stripped = match &case.val.leaf {
                Leaf::Sparse(_) | Leaf::SparseBig(_) | Leaf::SparseMulti(_, _) => Some(("SparseVector", docfmt::strip_sparse_masked(&elems, keep.first().copied().unwrap_or(0)))),
                Leaf::Core(_) => Some(("WMCore", docfmt::strip_core_masked(&elems, &keep))),
                Leaf::WM(_) => Some(("WaveletMatrix", docfmt::strip_wm_masked(&elems, &keep))),
                _ => None,
            };
            if let Some((what, s)) = stripped {
                let mut s = s.map_err(|e| Fail::new("strip", format!("cannot strip supports from a {} file: {}", what, e)))?;
                if in_option {
                    // an optional structure whose embedded bitvectors carry no supports: the length prefix is the stripped size
                    s.insert(0, s.len() as u64);
                }
                let b = docfmt::to_bytes(&s);
                let mut r = ChunkedReader::new(&b, &case.chunks);
                let loaded = x.load_same(&mut r).map_err(|e| Fail::new(format!("load-stripped.{}", what), format!("a {} file whose embedded bitvectors carry no support structures was rejected: {}", what, e)))?;
                ensure_eq!(r.pos, b.len(), "load-stripped.consumed", "{}: bytes consumed", what);
                // "load and work": the answers must be those of the original; `==` with the original is not part of the property
                let same = loaded.eq_dyn(x.as_ref());
                let probe = crate::engine::catch(|| loaded.probe()).map_err(|(loc, msg)| Fail::new(format!("load-stripped.{}.panic@{}", what, loc), format!("{} loaded from a file with fewer embedded supports: a query panicked at {}: {}", what, loc, msg)))?;
                ensure_eq!(probe, x.probe(), format!("load-stripped.{}.answers", what), "{} loaded from a file with fewer embedded supports answers the query plan differently (== is {})", what, same);
                rep.class_if(!same, "loaded-works-but-not-==-original");
                rep.class(&format!("stripped:{}", what));
                rep.class_if(in_option, "stripped-inside-option");
                rep.class_if(mixed, "stripped:mixed-subsets-per-bitvector");
            }
        }

        // skip_option moves exactly past an optional structure, whatever it contains
        if x.is_option() {
            const MARK: u64 = 0xC19C_19C1_9C19_C19C;
            let mut stream = lib_bytes.clone();
            stream.extend_from_slice(&MARK.to_le_bytes());
            let mut r = ChunkedReader::new(&stream, &case.chunks);
            serialize::skip_option(&mut r).map_err(|e| Fail::new("skip_option", format!("skip_option failed on a complete {}: {}", x.type_name(), e)))?;
            ensure_eq!(r.pos, lib_bytes.len(), "skip_option.position", "reader position after skip_option over {}", x.type_name());
            let mut m = [0u8; 8];
            r.read_exact(&mut m).map_err(|e| Fail::new("skip_option", format!("cannot read the marker: {}", e)))?;
            ensure_eq!(u64::from_le_bytes(m), MARK, "skip_option.marker", "element after the skipped optional");
            rep.class(&format!("skip_option:{}", ["", "None", "Some", "SomeNone", "SomeSome"][case.val.opt as usize % 5]));
            // absent_option writes what loads as None
            let mut ab: Vec<u8> = Vec::new();
            serialize::absent_option(&mut ab).map_err(|e| Fail::new("absent_option", e.to_string()))?;
            ensure_eq!(ab, vec![0u8; 8], "absent_option", "absent_option() output");
            ensure_eq!(serialize::absent_option_size(), 1, "absent_option_size", "absent_option_size()");
            if case.val.opt % 5 == 1 {
                ensure!(ab == lib_bytes, "absent_option", "absent_option() differs from serializing None");
                let mut cur = std::io::Cursor::new(&ab[..]);
                let loaded = x.load_same(&mut cur).map_err(|e| Fail::new("absent_option", e.to_string()))?;
                ensure!(loaded.eq_dyn(x.as_ref()), "absent_option", "absent_option() did not load as None");
            }
        }
        Ok(rep)
    }

    fn health(classes: &BTreeMap<String, u64>, _tier: Tier) -> Result<(), String> {
        for m in 0..8 {
            if classes.get(&format!("written-subset:{:03b}", m)).copied().unwrap_or(0) == 0 {
                return Err(format!("support subset {:03b} was never written", m));
            }
        }
        for c in ["stripped:SparseVector", "stripped:WMCore", "stripped:WaveletMatrix", "stripped-inside-option", "stripped:mixed-subsets-per-bitvector", "skip_option:None", "skip_option:Some", "skip_option:SomeNone", "skip_option:SomeSome", "long-superblock(ones)", "long-superblock(zeros)"] {
            if classes.get(c).copied().unwrap_or(0) == 0 {
                return Err(format!("no generated case reached class {}", c));
            }
        }
        Ok(())
    }

    fn assumptions() -> Vec<String> {
        vec!["supports are stripped from composite files by the harness's document-only codec (structure-aware copy with absent optionals)".into(), "queries are only asked for enabled support structures (asking without support may panic by documentation)".into()]
    }
}

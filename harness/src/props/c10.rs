//! C10 — every iterator yields the reference sequence under any interleaving of calls.

use crate::anyval::{build_multiset, int_from, multiset_values};
use crate::engine::{CaseResult, Fail, Prop, Report, Tier};
use crate::gen::BitsSpec;
use crate::model::{Bits, Model, SetModel};
use crate::props::c01::sparse_from;
use crate::props::c04::VecModel;
use crate::util::{frac, hash_of};
use proptest::prelude::*;
use serde::{Deserialize, Serialize};
use simple_sds::bit_vector::BitVector;
use simple_sds::int_vector::IntVectorMapper;
use simple_sds::ops::{Access, BitVec, PredSucc, Rank, Select, SelectZero, VectorIndex};
use simple_sds::serialize::{MappingMode, MemoryMap, MemoryMapped};
use simple_sds::wavelet_matrix::WaveletMatrix;
use std::collections::{BTreeMap, VecDeque};
use std::fmt::Debug;

pub struct C10;

#[derive(Clone, Copy, Debug, Serialize, Deserialize, Hash, PartialEq, Eq)]
pub enum K {
    Small(u8),
    /// remaining + d
    Rem(i8),
    /// usize::MAX - d, or 2^63 + d
    Huge(u8),
}

#[derive(Clone, Copy, Debug, Serialize, Deserialize, Hash, PartialEq, Eq)]
pub enum ItOp {
    Next,
    NextBack,
    Nth(K),
    NthBack(K),
    Clone,
}

#[derive(Clone, Debug, Serialize, Deserialize, Hash)]
pub enum Src {
    Bits(BitsSpec),
    /// multiset sparse vector: universe-1, increments
    Multi(u16, Vec<u8>),
    /// integer vector: width-1, items
    Ints(u8, Vec<u64>),
    /// wavelet matrix items (small alphabet)
    Wm(Vec<u16>),
}

#[derive(Clone, Debug, Serialize, Deserialize, Hash)]
pub struct Case {
    pub src: Src,
    /// which iterator of the structure (taken modulo the number available)
    pub kind: u8,
    /// starting point for positioned iterators, as a fraction
    pub start: u16,
    pub ops: Vec<ItOp>,
    /// run every call sequence of length <= 6 over {next, next_back, nth(1), nth_back(1)} instead of `ops`
    #[serde(default)]
    pub all_sequences: bool,
}

fn resolve(k: K, remaining: usize) -> usize {
    match k {
        K::Small(v) => v as usize % 5,
        K::Rem(d) => (remaining as i128 + d as i128).clamp(0, usize::MAX as i128) as usize,
        K::Huge(d) => {
            if d % 2 == 0 {
                usize::MAX - (d / 2) as usize
            } else {
                (1usize << 63) + (d / 2) as usize
            }
        }
    }
}

#[derive(Default)]
pub struct Drive {
    pub front: bool,
    pub back: bool,
    pub nth: bool,
    pub overshoot: bool,
    pub calls: u64,
}

fn fail<T>(name: &str, what: &str, msg: String) -> Result<T, Fail> {
    Err(Fail::new(format!("{}.{}", name, what), format!("{}: {}", name, msg)))
}

macro_rules! drive_impl {
    ($fname:ident, [$($bound:tt)*], $double:tt, $exact:tt, $clone:tt) => {
        #[allow(unused_mut, unused_variables)]
        pub fn $fname<I, T>(mut it: I, reference: &[T], ops: &[ItOp], name: &str, d: &mut Drive) -> Result<(), Fail>
        where
            I: $($bound)*,
            T: PartialEq + Debug + Clone,
        {
            let mut dq: VecDeque<T> = reference.iter().cloned().collect();
            let check_len = |it: &I, dq: &VecDeque<T>, after: &str| -> Result<(), Fail> {
                drive_impl!(@len $exact, it, dq, name, after);
                Ok(())
            };
            check_len(&it, &dq, "creation")?;
            for (step, op) in ops.iter().enumerate() {
                let op = if $double { *op } else { match op { ItOp::NextBack => ItOp::Next, ItOp::NthBack(k) => ItOp::Nth(*k), o => *o } };
                d.calls += 1;
                match op {
                    ItOp::Next => {
                        let (got, want) = (it.next(), dq.pop_front());
                        if got != want {
                            return fail(name, "next", format!("call {} next() = {:?}, reference says {:?}", step, got, want));
                        }
                        d.front = true;
                    }
                    ItOp::NextBack => {
                        drive_impl!(@back $double, it, dq, name, step, d);
                    }
                    ItOp::Nth(k) => {
                        let n = resolve(k, dq.len());
                        let want = if n >= dq.len() {
                            dq.clear();
                            d.overshoot = true;
                            None
                        } else {
                            dq.drain(..n);
                            dq.pop_front()
                        };
                        let got = it.nth(n);
                        if got != want {
                            return fail(name, "nth", format!("call {} nth({}) = {:?}, reference says {:?}", step, n, got, want));
                        }
                        d.nth = true;
                        d.front = true;
                    }
                    ItOp::NthBack(k) => {
                        drive_impl!(@nth_back $double, it, dq, name, step, k, d);
                    }
                    ItOp::Clone => {
                        drive_impl!(@clone $clone, it);
                    }
                }
                check_len(&it, &dq, &format!("call {} ({:?})", step, op))?;
            }
            // drain the rest
            let mut i = 0usize;
            while let Some(want) = dq.pop_front() {
                let got = it.next();
                if got.as_ref() != Some(&want) {
                    return fail(name, "drain", format!("item {} of the rest = {:?}, reference says {:?}", i, got, Some(want)));
                }
                i += 1;
                if i % 64 == 0 {
                    check_len(&it, &dq, "draining")?;
                }
            }
            for _ in 0..3 {
                if let Some(x) = it.next() {
                    return fail(name, "exhausted", format!("next() after exhaustion returned {:?}", x));
                }
                drive_impl!(@back_none $double, it, name);
            }
            check_len(&it, &dq, "exhaustion")?;
            Ok(())
        }
    };
    (@clone true, $it:ident) => {
        $it = $it.clone();
    };
    (@clone false, $it:ident) => {};
    (@len true, $it:ident, $dq:ident, $name:ident, $after:ident) => {
        if $it.len() != $dq.len() || $it.size_hint() != ($dq.len(), Some($dq.len())) {
            return fail($name, "len", format!("after {}: len() = {} / size_hint() = {:?}, {} items remain", $after, $it.len(), $it.size_hint(), $dq.len()));
        }
    };
    (@len false, $it:ident, $dq:ident, $name:ident, $after:ident) => {};
    (@back true, $it:ident, $dq:ident, $name:ident, $step:ident, $d:ident) => {
        let (got, want) = ($it.next_back(), $dq.pop_back());
        if got != want {
            return fail($name, "next_back", format!("call {} next_back() = {:?}, reference says {:?}", $step, got, want));
        }
        $d.back = true;
    };
    (@back false, $it:ident, $dq:ident, $name:ident, $step:ident, $d:ident) => {};
    (@nth_back true, $it:ident, $dq:ident, $name:ident, $step:ident, $k:ident, $d:ident) => {
        let n = resolve($k, $dq.len());
        let want = if n >= $dq.len() {
            $dq.clear();
            $d.overshoot = true;
            None
        } else {
            let keep = $dq.len() - n;
            $dq.truncate(keep);
            $dq.pop_back()
        };
        let got = $it.nth_back(n);
        if got != want {
            return fail($name, "nth_back", format!("call {} nth_back({}) = {:?}, reference says {:?}", $step, n, got, want));
        }
        $d.nth = true;
        $d.back = true;
    };
    (@nth_back false, $it:ident, $dq:ident, $name:ident, $step:ident, $k:ident, $d:ident) => {};
    (@back_none true, $it:ident, $name:ident) => {
        if let Some(x) = $it.next_back() {
            return fail($name, "exhausted", format!("next_back() after exhaustion returned {:?}", x));
        }
    };
    (@back_none false, $it:ident, $name:ident) => {};
}

drive_impl!(drive_de, [DoubleEndedIterator<Item = T> + ExactSizeIterator + Clone], true, true, true);
drive_impl!(drive_de_noclone, [DoubleEndedIterator<Item = T> + ExactSizeIterator], true, true, false);
drive_impl!(drive_fwd_exact, [Iterator<Item = T> + ExactSizeIterator + Clone], false, true, true);
drive_impl!(drive_fwd, [Iterator<Item = T> + Clone], false, false, true);

/// every sequence of length <= 6 over {next, next_back, nth(1), nth_back(1)}
fn all_sequences() -> Vec<Vec<ItOp>> {
    let alphabet = [ItOp::Next, ItOp::NextBack, ItOp::Nth(K::Small(1)), ItOp::NthBack(K::Small(1))];
    let mut out: Vec<Vec<ItOp>> = vec![vec![]];
    let mut frontier: Vec<Vec<ItOp>> = vec![vec![]];
    for _ in 0..6 {
        let mut next = Vec::new();
        for s in &frontier {
            for a in alphabet {
                let mut t = s.clone();
                t.push(a);
                next.push(t);
            }
        }
        out.extend(next.iter().cloned());
        frontier = next;
    }
    out
}

fn pairs(v: &[usize]) -> Vec<(usize, usize)> {
    v.iter().copied().enumerate().collect()
}

pub const BIT_KINDS: u8 = 26;

fn run_bits(bits: &Bits, case: &Case, seqs: &[Vec<ItOp>], rep: &mut Report, d: &mut Drive) -> Result<String, Fail> {
    let model = SetModel::from_bits(bits);
    let n = bits.len;
    let ones = pairs(&model.ones);
    let zeros = pairs(&bits.zero_positions());
    let bools = bits.to_bools();
    let r1 = frac(case.start, ones.len() + 1);
    let r0 = frac(case.start, zeros.len() + 1);
    let v = frac(case.start, n + 1);
    let pred_from = model.predecessor(v).map(|x| x.0).unwrap_or(ones.len());
    let succ_from = model.successor(v).map(|x| x.0).unwrap_or(ones.len());
    let kind = case.kind % BIT_KINDS;
    let mut name = String::new();
    macro_rules! go {
        ($driver:ident, $make:expr, $reference:expr, $n:expr) => {{
            name = $n.to_string();
            for ops in seqs {
                $driver($make, $reference, ops, $n, d)?;
                rep.evals += 1;
            }
        }};
    }
    match kind {
        0..=6 => {
            let mut bv = BitVector::from(crate::props::c01::raw_by_set_bit(bits));
            bv.enable_rank();
            bv.enable_select();
            bv.enable_select_zero();
            match kind {
                0 => go!(drive_de, bv.iter(), &bools, "BitVector::iter"),
                1 => go!(drive_de, bv.one_iter(), &ones, "BitVector::one_iter"),
                2 => go!(drive_de, bv.zero_iter(), &zeros, "BitVector::zero_iter"),
                3 => go!(drive_de, bv.select_iter(r1), &ones[r1.min(ones.len())..], "BitVector::select_iter"),
                4 => go!(drive_de, bv.select_zero_iter(r0), &zeros[r0.min(zeros.len())..], "BitVector::select_zero_iter"),
                5 => go!(drive_de, bv.predecessor(v), &ones[pred_from..], "BitVector::predecessor"),
                _ => go!(drive_de, bv.successor(v), &ones[succ_from..], "BitVector::successor"),
            }
        }
        7..=15 => {
            let sv = sparse_from(bits);
            match kind {
                7 | 8 => go!(drive_de, sv.iter(), &bools, "SparseVector::iter"),
                9 => go!(drive_de, sv.one_iter(), &ones, "SparseVector::one_iter"),
                10 => go!(drive_fwd_exact, sv.zero_iter(), &zeros, "SparseVector::zero_iter"),
                11 => go!(drive_de, sv.select_iter(r1), &ones[r1.min(ones.len())..], "SparseVector::select_iter"),
                12 => go!(drive_fwd_exact, sv.select_zero_iter(r0), &zeros[r0.min(zeros.len())..], "SparseVector::select_zero_iter"),
                13 => go!(drive_de, sv.predecessor(v), &ones[pred_from..], "SparseVector::predecessor"),
                _ => go!(drive_de, sv.successor(v), &ones[succ_from..], "SparseVector::successor"),
            }
        }
        _ => {
            // the builder history varies with the case: maximal runs, adjacent pieces, interleaved set_len calls, single bits
            let rl = crate::props::c11::rl_by_decomposition(bits, (case.start % 6) as u8, &[(case.start >> 3) as u8, (case.start >> 5) as u8, (case.start >> 7) as u8], case.start & 64 != 0);
            match kind {
                16 | 17 => go!(drive_fwd_exact, rl.iter(), &bools, "RLVector::iter"),
                18 => go!(drive_fwd_exact, rl.one_iter(), &ones, "RLVector::one_iter"),
                19 => go!(drive_fwd_exact, rl.zero_iter(), &zeros, "RLVector::zero_iter"),
                20 => go!(drive_fwd_exact, rl.select_iter(r1), &ones[r1.min(ones.len())..], "RLVector::select_iter"),
                21 => go!(drive_fwd_exact, rl.select_zero_iter(r0), &zeros[r0.min(zeros.len())..], "RLVector::select_zero_iter"),
                22 => go!(drive_fwd_exact, rl.predecessor(v), &ones[pred_from..], "RLVector::predecessor"),
                23 => go!(drive_fwd_exact, rl.successor(v), &ones[succ_from..], "RLVector::successor"),
                _ => {
                    let runs = bits.runs();
                    go!(drive_fwd, rl.run_iter(), &runs, "RLVector::run_iter")
                }
            }
        }
    }
    Ok(name)
}

impl Prop for C10 {
    type Case = Case;
    const ID: &'static str = "C10";
    const RULE: &'static str = "structure (bit sequences up to ~3000 bits for the three bitvector types, multiset sparse vectors, integer vectors of every width incl. memory-mapped, wavelet matrices) x iterator kind (all bits, set bits, unset bits, runs, items, owning iterators, occurrences of a value; also positioned by select_iter / select_zero_iter / predecessor / successor at a generated point) x call history of 0..40 calls over next / next_back / nth(k) / nth_back(k) / clone with k small, about the remainder, beyond it, and near usize::MAX (forward-only iterators get the forward subset): every call must return what a VecDeque of the reference sequence returns, len()/size_hint() must equal the remaining count after every call when the iterator is ExactSize, the rest is drained and compared, and next()/next_back() return None three more times. All call sequences of length <= 6 over {next, next_back, nth(1), nth_back(1)} on all bit strings of length <= 6 for the double-ended bit/set-bit/unset-bit iterators. Non-trivial: a front and a back call (double-ended) or an nth (forward) before exhaustion; distinct by (structure, iterator, history).";

    fn cases(tier: Tier) -> u32 {
        tier.pick(60_000, 600_000)
    }

    fn strategy(tier: Tier, _cfg: &str) -> BoxedStrategy<Case> {
        let max_len = tier.pick(600usize, 3000usize);
        let bits = prop_oneof![
            4 => proptest::collection::vec(any::<bool>(), 0..140).prop_map(BitsSpec::Bools),
            2 => proptest::collection::vec(prop_oneof![5 => Just(false), 1 => Just(true)], 0..200).prop_map(BitsSpec::Bools),
            2 => proptest::collection::vec(prop_oneof![1 => Just(false), 5 => Just(true)], 0..200).prop_map(BitsSpec::Bools),
            3 => (proptest::collection::vec((0u32..70, 0u32..70), 0..24), 0u32..70).prop_map(|(r, t)| BitsSpec::Runs(r, t)),
            1 => (prop_oneof![90_000usize..140_000, 230_000usize..330_000], prop_oneof![Just(crate::gen::Kind::Uniform(1800)), Just(crate::gen::Kind::Uniform(63700)), Just(crate::gen::Kind::Zones), Just(crate::gen::Kind::PackedSpread(4100, 30, 20000))], any::<u64>(), any::<bool>()).prop_map(|(l, k, s, c)| BitsSpec::Recipe(l, k, s, c)),
            2 => (0usize..max_len, prop_oneof![Just(crate::gen::Kind::Uniform(6554)), Just(crate::gen::Kind::Uniform(32768)), Just(crate::gen::Kind::Clustered(20, 30)), Just(crate::gen::Kind::AllOne), Just(crate::gen::Kind::AllZero)], any::<u64>(), any::<bool>()).prop_map(|(l, k, s, c)| BitsSpec::Recipe(l, k, s, c)),
        ];
        let src = prop_oneof![
            10 => bits.prop_map(Src::Bits),
            2 => (0u16..80, proptest::collection::vec(any::<u8>(), 0..60)).prop_map(|(u, v)| Src::Multi(u, v)),
            2 => (any::<u8>(), proptest::collection::vec(any::<u64>(), 0..60)).prop_map(|(w, v)| Src::Ints(w, v)),
            3 => proptest::collection::vec(prop_oneof![0u16..4, 0u16..40], 0..80).prop_map(Src::Wm),
        ];
        let k = prop_oneof![4 => (0u8..5).prop_map(K::Small), 3 => (-3i8..=3).prop_map(K::Rem), 1 => (0u8..6).prop_map(K::Huge)];
        let op = prop_oneof![5 => Just(ItOp::Next), 5 => Just(ItOp::NextBack), 3 => k.clone().prop_map(ItOp::Nth), 3 => k.prop_map(ItOp::NthBack), 1 => Just(ItOp::Clone)];
        (src, any::<u8>(), any::<u16>(), proptest::collection::vec(op, 0..40)).prop_map(|(src, kind, start, ops)| Case { src, kind, start, ops, all_sequences: false }).boxed()
    }

    fn exhaustive(_tier: Tier, shard: usize, nshards: usize, emit: &mut dyn FnMut(Case) -> bool) {
        let mut idx = 0usize;
        for len in 0..=6usize {
            for v in 0u32..(1u32 << len) {
                let bools: Vec<bool> = (0..len).map(|i| (v >> i) & 1 == 1).collect();
                for kind in [0u8, 1, 2, 7, 9] {
                    idx += 1;
                    if (idx - 1) % nshards != shard {
                        continue;
                    }
                    if !emit(Case { src: Src::Bits(BitsSpec::Bools(bools.clone())), kind, start: 0, ops: vec![], all_sequences: true }) {
                        return;
                    }
                }
            }
        }
    }

    fn exhaustive_note(_tier: Tier) -> Option<String> {
        Some("all 5461 call sequences of length <= 6 over {next, next_back, nth(1), nth_back(1)} x all 127 bit strings of length <= 6 x {BitVector iter/one_iter/zero_iter, SparseVector iter/one_iter}".into())
    }

    fn run(case: &Case) -> CaseResult {
        let mut rep = Report::new();
        rep.evals = 0;
        let mut d = Drive::default();
        let seqs: Vec<Vec<ItOp>> = if case.all_sequences { all_sequences() } else { vec![case.ops.clone()] };
        let mut double_ended = false;
        let name: String = match &case.src {
            Src::Bits(b) => {
                let bits = b.expand();
                let name = run_bits(&bits, case, &seqs, &mut rep, &mut d)?;
                double_ended = name.starts_with("BitVector") || (name.starts_with("SparseVector") && !name.contains("zero"));
                name
            }
            Src::Multi(u, incs) => {
                let (n, vals) = multiset_values(*u, incs);
                let sv = build_multiset(n, &vals);
                let model = SetModel::new(n, vals.clone());
                let ones = pairs(&vals);
                double_ended = true;
                match case.kind % 4 {
                    0 => {
                        let bools: Vec<bool> = (0..n).map(|i| model.get(i)).collect();
                        for ops in &seqs {
                            drive_de(sv.iter(), &bools, ops, "SparseVector(multiset)::iter", &mut d)?;
                            rep.evals += 1;
                        }
                        "SparseVector(multiset)::iter".to_string()
                    }
                    1 => {
                        for ops in &seqs {
                            drive_de(sv.one_iter(), &ones, ops, "SparseVector(multiset)::one_iter", &mut d)?;
                            rep.evals += 1;
                        }
                        "SparseVector(multiset)::one_iter".to_string()
                    }
                    2 => {
                        let v = frac(case.start, n + 1);
                        let from = model.successor(v).map(|x| x.0).unwrap_or(ones.len());
                        for ops in &seqs {
                            drive_de(sv.successor(v), &ones[from..], ops, "SparseVector(multiset)::successor", &mut d)?;
                            rep.evals += 1;
                        }
                        "SparseVector(multiset)::successor".to_string()
                    }
                    _ => {
                        let v = frac(case.start, n + 1);
                        let from = model.predecessor(v).map(|x| x.0).unwrap_or(ones.len());
                        for ops in &seqs {
                            drive_de(sv.predecessor(v), &ones[from..], ops, "SparseVector(multiset)::predecessor", &mut d)?;
                            rep.evals += 1;
                        }
                        "SparseVector(multiset)::predecessor".to_string()
                    }
                }
            }
            Src::Ints(w, items) => {
                let width = *w as usize % 64 + 1;
                let iv = int_from(width, items);
                let mask = if width == 64 { !0u64 } else { (1u64 << width) - 1 };
                let reference: Vec<u64> = items.iter().map(|&v| v & mask).collect();
                match case.kind % 3 {
                    0 => {
                        double_ended = true;
                        for ops in &seqs {
                            drive_de(iv.iter(), &reference, ops, "IntVector::iter", &mut d)?;
                            rep.evals += 1;
                        }
                        "IntVector::iter".to_string()
                    }
                    1 => {
                        for ops in &seqs {
                            drive_fwd_exact(iv.clone().into_iter(), &reference, ops, "IntVector::into_iter", &mut d)?;
                            rep.evals += 1;
                        }
                        "IntVector::into_iter".to_string()
                    }
                    _ => {
                        double_ended = true;
                        let path = std::env::temp_dir().join(format!("c10-{}-{:016x}-{:?}", std::process::id(), hash_of(case), std::thread::current().id()).replace(['(', ')'], ""));
                        simple_sds::serialize::serialize_to(&iv, &path).map_err(|e| Fail::new("infra", format!("cannot write scratch file: {}", e)))?;
                        let res = (|| -> Result<(), Fail> {
                            let map = MemoryMap::new(&path, MappingMode::ReadOnly).map_err(|e| Fail::new("MemoryMap.new", e.to_string()))?;
                            let mapper = IntVectorMapper::new(&map, 0).map_err(|e| Fail::new("IntVectorMapper.new", e.to_string()))?;
                            for ops in &seqs {
                                drive_de_noclone(mapper.iter(), &reference, ops, "IntVectorMapper::iter", &mut d)?;
                                rep.evals += 1;
                            }
                            Ok(())
                        })();
                        let _ = std::fs::remove_file(&path);
                        res?;
                        "IntVectorMapper::iter".to_string()
                    }
                }
            }
            Src::Wm(vals) => {
                let vals: Vec<u64> = vals.iter().map(|&v| v as u64).collect();
                let wm = WaveletMatrix::from(vals.clone());
                let vm = VecModel::new(vals.clone());
                let n = vals.len();
                // a value: present one chosen by `start`, or an absent one
                let v: u64 = if n > 0 && case.start % 5 != 0 { vals[frac(case.start, n - 1)] } else { (case.start % 50) as u64 };
                let occ = pairs(vm.occ(v));
                match case.kind % 6 {
                    0 => {
                        double_ended = true;
                        for ops in &seqs {
                            drive_de(wm.iter(), &vals, ops, "WaveletMatrix::iter", &mut d)?;
                            rep.evals += 1;
                        }
                        "WaveletMatrix::iter".to_string()
                    }
                    1 => {
                        for ops in &seqs {
                            drive_fwd_exact(wm.clone().into_iter(), &vals, ops, "WaveletMatrix::into_iter", &mut d)?;
                            rep.evals += 1;
                        }
                        "WaveletMatrix::into_iter".to_string()
                    }
                    2 => {
                        for ops in &seqs {
                            drive_fwd(wm.value_iter(v), &occ, ops, "WaveletMatrix::value_iter", &mut d)?;
                            rep.evals += 1;
                        }
                        "WaveletMatrix::value_iter".to_string()
                    }
                    3 => {
                        let r = frac(case.start / 5, occ.len() + 1);
                        for ops in &seqs {
                            drive_fwd(wm.select_iter(r, v), &occ[r.min(occ.len())..], ops, "WaveletMatrix::select_iter", &mut d)?;
                            rep.evals += 1;
                        }
                        "WaveletMatrix::select_iter".to_string()
                    }
                    4 => {
                        let i = frac(case.start / 5, n + 1);
                        let k = vm.occ(v).partition_point(|&p| p <= i);
                        let from = if k == 0 { occ.len() } else { k - 1 };
                        for ops in &seqs {
                            drive_fwd(wm.predecessor(i, v), &occ[from..], ops, "WaveletMatrix::predecessor", &mut d)?;
                            rep.evals += 1;
                        }
                        "WaveletMatrix::predecessor".to_string()
                    }
                    _ => {
                        let i = frac(case.start / 5, n + 1);
                        let from = vm.occ(v).partition_point(|&p| p < i);
                        for ops in &seqs {
                            drive_fwd(wm.successor(i, v), &occ[from..], ops, "WaveletMatrix::successor", &mut d)?;
                            rep.evals += 1;
                        }
                        "WaveletMatrix::successor".to_string()
                    }
                }
            }
        };
        rep.evals = rep.evals.max(1);
        rep.class(&name);
        rep.class_if(d.overshoot, "nth-beyond-remainder");
        rep.class_if(case.all_sequences, "all-sequences<=6");
        if let Src::Bits(BitsSpec::Recipe(l, _, _, _)) = &case.src {
            rep.class_if(*l >= 83_521, "bits>=83521(long select superblocks possible)");
        }
        let nontrivial = if double_ended { d.front && d.back } else { d.nth };
        if nontrivial || case.all_sequences {
            rep.nontrivial(hash_of(case));
        }
        Ok(rep)
    }

    fn health(classes: &BTreeMap<String, u64>, _tier: Tier) -> Result<(), String> {
        for c in [
            "BitVector::iter", "BitVector::one_iter", "BitVector::zero_iter", "BitVector::select_iter", "BitVector::select_zero_iter", "BitVector::predecessor", "BitVector::successor",
            "SparseVector::iter", "SparseVector::one_iter", "SparseVector::zero_iter", "SparseVector::select_iter", "SparseVector::select_zero_iter", "SparseVector::predecessor", "SparseVector::successor",
            "RLVector::iter", "RLVector::one_iter", "RLVector::zero_iter", "RLVector::select_iter", "RLVector::select_zero_iter", "RLVector::predecessor", "RLVector::successor", "RLVector::run_iter",
            "SparseVector(multiset)::iter", "SparseVector(multiset)::one_iter", "IntVector::iter", "IntVector::into_iter", "IntVectorMapper::iter",
            "WaveletMatrix::iter", "WaveletMatrix::into_iter", "WaveletMatrix::value_iter", "WaveletMatrix::select_iter", "WaveletMatrix::predecessor", "WaveletMatrix::successor", "nth-beyond-remainder", "all-sequences<=6", "bits>=83521(long select superblocks possible)",
        ] {
            if classes.get(c).copied().unwrap_or(0) == 0 {
                return Err(format!("no generated case reached class {}", c));
            }
        }
        Ok(())
    }

    fn sanitize(case: &mut Case) {
        case.all_sequences = false;
        match &mut case.src {
            // byte-decoded (fuzzer) cases stay small: the coverage-guided campaign is about call interleavings, the large
            // positioned iterators are covered by the generated cases
            Src::Bits(b) => b.clamp(3000),
            Src::Multi(_, v) => v.truncate(60),
            Src::Ints(_, v) => v.truncate(80),
            Src::Wm(v) => {
                v.truncate(80);
                for x in v.iter_mut() {
                    *x %= 64;
                }
            }
        }
    }

    fn assumptions() -> Vec<String> {
        vec![
            "structures are small (up to ~3000 bits / 80 items) so that the whole rest of every iterator is drained and compared".into(),
            "next_back/nth_back are only issued to iterators that implement DoubleEndedIterator; len() only to ExactSizeIterator".into(),
        ]
    }
}


//! C14 — truncated input and failed writes are always reported, never accepted (fault enumeration).

use crate::anyval::{val_spec, ValSpec};
use crate::engine::{catch, CaseResult, Fail, Prop, Report, Tier};
use crate::props::c06::{ser_bytes, ChunkedReader};
use crate::util::{hash_of, mix};
use crate::{ensure, ensure_eq};
use proptest::prelude::*;
use serde::{Deserialize, Serialize};
use simple_sds::int_vector::{IntVector, IntVectorWriter};
use simple_sds::ops::Push;
use simple_sds::raw_vector::{PushRaw, RawVector, RawVectorWriter};
use simple_sds::serialize::{self, MappingMode, MemoryMap, Serialize as Sds};
use std::collections::BTreeMap;
use std::io::{self, Write};
use std::path::PathBuf;

pub struct C14;

#[derive(Clone, Debug, Serialize, Deserialize, Hash)]
pub enum WriterSpec {
    /// width-1, buffer length in items, items
    Int(u8, u16, Vec<u64>),
    /// header elements, buffer length in bits, pushes (value, width 0..=64; width 65 = push_bit)
    Raw(Vec<u64>, u16, Vec<(u64, u8)>),
}

#[derive(Clone, Debug, Serialize, Deserialize, Hash)]
pub struct Case {
    pub spec: ValSpec,
    pub chunks: Vec<u8>,
    pub writer: Option<WriterSpec>,
}

const MARKER: &str = "verif-sink-failure-marker";

/// A sink that accepts `budget` bytes (in short writes) and then fails with a marker error.
pub struct FailingWriter<'a> {
    pub accepted: Vec<u8>,
    pub budget: usize,
    pub chunks: &'a [u8],
    pub k: usize,
}

impl<'a> Write for FailingWriter<'a> {
    fn write(&mut self, buf: &[u8]) -> io::Result<usize> {
        if buf.is_empty() {
            return Ok(0);
        }
        let remaining = self.budget - self.accepted.len();
        if remaining == 0 {
            return Err(io::Error::new(io::ErrorKind::Other, MARKER));
        }
        let mut n = buf.len().min(remaining);
        if !self.chunks.is_empty() {
            let c = (self.chunks[self.k % self.chunks.len()] as usize % 29) + 1;
            self.k += 1;
            n = n.min(c);
        }
        self.accepted.extend_from_slice(&buf[..n]);
        Ok(n)
    }
    fn flush(&mut self) -> io::Result<()> {
        Ok(())
    }
}

fn points(size: usize, all_limit: usize) -> Vec<usize> {
    if size <= all_limit {
        (0..size).collect()
    } else {
        // element-granular (+-1 byte) plus everything in the first and last 64 bytes
        let mut v: Vec<usize> = Vec::new();
        v.extend(0..64);
        v.extend(size - 64..size);
        let mut p = 64;
        while p < size - 64 {
            v.extend([p - 1, p, p + 1]);
            p += 8;
        }
        v.sort_unstable();
        v.dedup();
        v
    }
}

struct FsizeLimit {
    old: libc::rlimit,
}

impl FsizeLimit {
    fn set(limit: u64) -> FsizeLimit {
        unsafe {
            libc::signal(libc::SIGXFSZ, libc::SIG_IGN);
            let mut old = libc::rlimit { rlim_cur: 0, rlim_max: 0 };
            libc::getrlimit(libc::RLIMIT_FSIZE, &mut old);
            let new = libc::rlimit { rlim_cur: limit.min(old.rlim_max), rlim_max: old.rlim_max };
            libc::setrlimit(libc::RLIMIT_FSIZE, &new);
            FsizeLimit { old }
        }
    }
}

impl Drop for FsizeLimit {
    fn drop(&mut self) {
        unsafe {
            let restore = libc::rlimit { rlim_cur: self.old.rlim_max, rlim_max: self.old.rlim_max };
            libc::setrlimit(libc::RLIMIT_FSIZE, &restore);
        }
    }
}

fn temp_path(tag: &str, key: u64) -> PathBuf {
    std::env::temp_dir().join(format!("c14-{}-{}-{:016x}", tag, std::process::id(), key))
}

/// Expected file content and the push program for a writer specification.
fn writer_expected(w: &WriterSpec) -> Vec<u8> {
    let mut out = Vec::new();
    match w {
        WriterSpec::Int(width, _, items) => {
            let width = *width as usize % 64 + 1;
            let mut iv = IntVector::new(width).unwrap();
            for &v in items {
                iv.push(v);
            }
            iv.serialize(&mut out).unwrap();
        }
        WriterSpec::Raw(header, _, pushes) => {
            header.serialize_body(&mut out).unwrap();
            let mut rv = RawVector::new();
            for &(v, w) in pushes {
                if w >= 65 {
                    rv.push_bit(v & 1 == 1);
                } else {
                    unsafe { rv.push_int(v, w as usize) };
                }
            }
            rv.serialize(&mut out).unwrap();
        }
    }
    out
}

#[derive(Debug, PartialEq, Eq, Clone, Copy)]
enum WOutcome {
    CtorErr,
    PushPanic,
    CloseErr,
    Complete,
    /// close() returned Ok after a push had panicked on the same (still present) fault
    CompleteAfterPushPanic,
    /// a retried close() returned Ok after the first close() had failed on the same fault
    CompleteAfterCloseErr,
}

/// Run the writer program once; returns the outcome and whether close() reported success.
fn run_writer(w: &WriterSpec, path: &PathBuf) -> WOutcome {
    match w {
        WriterSpec::Int(width, buf, items) => {
            let width = *width as usize % 64 + 1;
            let mut writer = match IntVectorWriter::with_buf_len(path, width, *buf as usize) {
                Ok(w) => w,
                Err(_) => return WOutcome::CtorErr,
            };
            let pushed = catch(|| {
                for &v in items {
                    writer.push(v);
                }
            });
            if pushed.is_err() {
                // documented: push may panic from I/O errors. The fault is still in place: a close() after the caught panic
                // (and a retried close()) must not report success either; dropping the writer must not panic on top of that.
                let c1 = catch(|| writer.close().is_ok());
                let c2 = catch(|| writer.close().is_ok());
                let _ = catch(move || drop(writer));
                return if c1 == Ok(true) || (c1 == Ok(false) && c2 == Ok(true)) { WOutcome::CompleteAfterPushPanic } else { WOutcome::PushPanic };
            }
            match writer.close() {
                Ok(()) => WOutcome::Complete,
                Err(_) => {
                    // a retried close() under the same fault must not turn into success
                    if writer.close().is_ok() {
                        WOutcome::CompleteAfterCloseErr
                    } else {
                        WOutcome::CloseErr
                    }
                }
            }
        }
        WriterSpec::Raw(header, buf, pushes) => {
            let mut h = header.clone();
            let mut writer = match RawVectorWriter::with_buf_len(path, &mut h, *buf as usize) {
                Ok(w) => w,
                Err(_) => return WOutcome::CtorErr,
            };
            let pushed = catch(|| {
                for &(v, w) in pushes {
                    if w >= 65 {
                        writer.push_bit(v & 1 == 1);
                    } else {
                        unsafe { writer.push_int(v, w as usize) };
                    }
                }
            });
            if pushed.is_err() {
                let c1 = catch(|| writer.close_with_header(&mut header.clone()).is_ok());
                let c2 = catch(|| writer.close_with_header(&mut header.clone()).is_ok());
                let _ = catch(move || drop(writer));
                return if c1 == Ok(true) || (c1 == Ok(false) && c2 == Ok(true)) { WOutcome::CompleteAfterPushPanic } else { WOutcome::PushPanic };
            }
            let mut h2 = header.clone();
            match writer.close_with_header(&mut h2) {
                Ok(()) => WOutcome::Complete,
                Err(_) => {
                    if writer.close_with_header(&mut header.clone()).is_ok() {
                        WOutcome::CompleteAfterCloseErr
                    } else {
                        WOutcome::CloseErr
                    }
                }
            }
        }
    }
}

impl Prop for C14 {
    type Case = Case;
    const ID: &'static str = "C14";
    const LEVEL: &'static str = "fault_enumeration";
    const ISOLATE: bool = true; // RLIMIT_FSIZE is process wide: every case runs in a single-threaded worker process
    const RULE: &'static str = "for each generated structure of any Serialize type (up to a few KiB): (a) load from EVERY strict byte prefix (every byte up to 3000 bytes, element boundaries +-1 beyond) through a reader that also returns short reads must be Err (no panic, no value); (b) for optional values skip_option on every strict prefix must be Err; (c) serialize into a sink that fails after EVERY budget 0..size-1 must return the sink's own error having written a prefix of the true bytes; (d) mapped views of the file truncated at every element boundary must be refused; (f) serialize_to() a file under EVERY RLIMIT_FSIZE value 0..=size+8 (structures up to 1200 bytes) returns Ok only for a complete file; (e) IntVectorWriter/RawVectorWriter programs under EVERY RLIMIT_FSIZE value 0..=size+8: outcome must be constructor Err, documented push panic, or close Err whenever the file is incomplete, close()==Ok implies byte-identical to the in-memory serialization, and a close() that follows a caught push panic or a failed close() under the same limit must not report success for an incomplete file. Non-trivial: a fault point beyond the first element; distinct by (structure bytes, fault kind, point).";

    fn cases(tier: Tier) -> u32 {
        tier.pick(700, 8000)
    }

    fn strategy(tier: Tier, _cfg: &str) -> BoxedStrategy<Case> {
        let max_bits = tier.pick(6000usize, 30_000usize);
        let value = prop_oneof![any::<u64>(), Just(!0u64), 0u64..4];
        let int_w = (any::<u8>(), prop_oneof![Just(0u16), Just(1), 0u16..40, 0u16..400], proptest::collection::vec(value.clone(), 0..120)).prop_map(|(w, b, items)| WriterSpec::Int(w, b, items));
        let raw_w = (proptest::collection::vec(any::<u64>(), 0..3), prop_oneof![Just(0u16), Just(64), 0u16..2000], proptest::collection::vec((value, 0u8..=65), 0..160)).prop_map(|(h, b, p)| WriterSpec::Raw(h, b, p));
        (val_spec(max_bits), proptest::collection::vec(any::<u8>(), 0..4), proptest::option::weighted(0.5, prop_oneof![int_w, raw_w])).prop_map(|(spec, chunks, writer)| Case { spec, chunks, writer }).boxed()
    }

    fn run(case: &Case) -> CaseResult {
        let mut rep = Report::new();
        rep.evals = 0;
        let x = case.spec.build();
        let name = x.type_name();
        let bytes = ser_bytes(x.as_ref());
        let size = bytes.len();
        let skey = hash_of(&bytes);
        rep.class(&case.spec.type_tag());

        // (a) every strict prefix
        for p in points(size, 3000) {
            let mut r = ChunkedReader::new(&bytes[..p], &case.chunks);
            let res = catch(|| x.load_same(&mut r).map(|_| ()));
            match res {
                Ok(Err(_)) => {}
                Ok(Ok(())) => return Err(Fail::new("load.accepts-prefix", format!("{}: load succeeded on the first {} of {} bytes", name, p, size))),
                Err((loc, msg)) => return Err(Fail::new(format!("load.panic@{}", loc), format!("{}: load panicked on the first {} of {} bytes at {}: {}", name, p, size, loc, msg))),
            }
            rep.evals += 1;
            if p >= 8 {
                rep.keys.push(mix(skey, mix(1, p as u64)));
            }
        }
        // the complete stream loads
        {
            let mut r = ChunkedReader::new(&bytes, &case.chunks);
            ensure!(x.load_same(&mut r).is_ok(), "load.complete", "{}: load failed on the complete {} bytes", name, size);
        }

        // (b) skip_option on every strict prefix of an optional value
        if x.is_option() {
            for p in points(size, 3000) {
                let mut r = ChunkedReader::new(&bytes[..p], &case.chunks);
                let res = catch(|| serialize::skip_option(&mut r));
                match res {
                    Ok(Err(_)) => {}
                    Ok(Ok(())) => return Err(Fail::new("skip_option.accepts-prefix", format!("{}: skip_option returned Ok on the first {} of {} bytes", name, p, size))),
                    Err((loc, msg)) => return Err(Fail::new(format!("skip_option.panic@{}", loc), format!("{}: skip_option panicked on the first {} of {} bytes at {}: {}", name, p, size, loc, msg))),
                }
                rep.evals += 1;
                if p >= 8 {
                    rep.keys.push(mix(skey, mix(2, p as u64)));
                }
            }
            let mut r = ChunkedReader::new(&bytes, &case.chunks);
            ensure!(serialize::skip_option(&mut r).is_ok() && r.pos == size, "skip_option.complete", "{}: skip_option on the complete stream failed or stopped at {} of {}", name, r.pos, size);
            rep.class("skip_option");
        }

        // (c) every write budget
        for b in points(size, 3000) {
            let mut sink = FailingWriter { accepted: Vec::new(), budget: b, chunks: &case.chunks, k: 0 };
            let res = catch(|| x.ser(&mut sink));
            match res {
                Ok(Err(e)) => {
                    ensure!(e.to_string().contains(MARKER), "serialize.error-replaced", "{}: serialize into a sink failing after {} bytes returned a different error: {}", name, b, e);
                }
                Ok(Ok(())) => return Err(Fail::new("serialize.swallows-error", format!("{}: serialize returned Ok although the sink failed after {} of {} bytes", name, b, size))),
                Err((loc, msg)) => return Err(Fail::new(format!("serialize.panic@{}", loc), format!("{}: serialize panicked when the sink failed after {} bytes at {}: {}", name, b, loc, msg))),
            }
            ensure!(sink.accepted.len() <= b && sink.accepted[..] == bytes[..sink.accepted.len()], "serialize.prefix", "{}: bytes accepted before the failure are not a prefix of the true serialization (budget {})", name, b);
            rep.evals += 1;
            if b >= 8 {
                rep.keys.push(mix(skey, mix(3, b as u64)));
            }
        }

        // (d) mapped views on truncated files
        if case.spec.is_mappable() {
            let elems = size / 8;
            let path = temp_path("map", skey);
            let cuts: Vec<usize> = if elems <= 48 { (0..elems).collect() } else { (0..24).chain(elems - 24..elems).collect() };
            let mut failure: Option<Fail> = None;
            for k in cuts {
                if std::fs::write(&path, &bytes[..8 * k]).is_err() {
                    failure = Some(Fail::new("infra", "cannot write a scratch file"));
                    break;
                }
                match MemoryMap::new(&path, MappingMode::ReadOnly) {
                    Err(_) => {} // e.g. the empty file: refused as a whole
                    Ok(map) => {
                        let res = catch(|| x.map_check(&map, 0));
                        match res {
                            Ok(Some(Err(_))) => {}
                            Ok(Some(Ok(_))) => {
                                failure = Some(Fail::new("map.accepts-truncated", format!("{}: a mapped view was created on a file cut to {} of {} elements", name, k, elems)));
                            }
                            Ok(None) => {}
                            Err((loc, msg)) => {
                                failure = Some(Fail::new(format!("map.panic@{}", loc), format!("{}: mapping a file cut to {} of {} elements panicked at {}: {}", name, k, elems, loc, msg)));
                            }
                        }
                    }
                }
                if failure.is_some() {
                    break;
                }
                rep.evals += 1;
                if k >= 1 {
                    rep.keys.push(mix(skey, mix(4, k as u64)));
                }
            }
            let _ = std::fs::remove_file(&path);
            if let Some(f) = failure {
                return Err(f);
            }
            rep.class("mapped-truncation");
        }

        // (f) serialize_to() a file under every file size limit: success only for a complete file
        if size <= 1200 {
            let path = temp_path("sto", skey);
            let mut failure: Option<Fail> = None;
            for limit in 0..=size + 8 {
                let _ = std::fs::remove_file(&path);
                let res = {
                    let _guard = FsizeLimit::set(limit as u64);
                    catch(|| x.to_file(&path))
                };
                let on_disk = std::fs::read(&path).unwrap_or_default();
                match res {
                    Ok(Ok(())) => {
                        if on_disk != bytes {
                            failure = Some(Fail::new("serialize_to.success-on-incomplete-file", format!("{}: serialize_to returned Ok under a file size limit of {} bytes but the file has {} of {} bytes", name, limit, on_disk.len(), size)));
                        }
                    }
                    Ok(Err(_)) => {
                        if limit >= size {
                            failure = Some(Fail::new("serialize_to.fails-without-fault", format!("{}: serialize_to failed although the limit {} allows all {} bytes", name, limit, size)));
                        }
                    }
                    Err((loc, msg)) => failure = Some(Fail::new(format!("serialize_to.panic@{}", loc), format!("{}: serialize_to panicked under a file size limit of {} bytes at {}: {}", name, limit, loc, msg))),
                }
                if failure.is_some() {
                    break;
                }
                rep.evals += 1;
                if limit >= 8 && limit < size {
                    rep.keys.push(mix(skey, mix(6, limit as u64)));
                }
            }
            let _ = std::fs::remove_file(&path);
            if let Some(f) = failure {
                return Err(f);
            }
            rep.class("serialize_to-under-limits");
        }

        // (e) buffered writers under every file size limit
        if let Some(w) = &case.writer {
            let expected = writer_expected(w);
            let wkey = hash_of(w);
            let path = temp_path("wr", wkey);
            let mut outcomes: BTreeMap<String, u64> = BTreeMap::new();
            let mut failure: Option<Fail> = None;
            let limits: Vec<usize> = if expected.len() <= 1600 { (0..=expected.len() + 8).collect() } else { (0..=expected.len() + 8).step_by(7).collect() };
            for limit in limits {
                let _ = std::fs::remove_file(&path);
                let outcome = {
                    let _guard = FsizeLimit::set(limit as u64);
                    run_writer(w, &path)
                };
                let on_disk = std::fs::read(&path).unwrap_or_default();
                let complete = on_disk == expected;
                *outcomes.entry(format!("{:?}", outcome)).or_insert(0) += 1;
                if (outcome == WOutcome::CompleteAfterPushPanic || outcome == WOutcome::CompleteAfterCloseErr) && !complete {
                    failure = Some(Fail::new("writer.success-after-reported-failure", format!("writer {:?}: under a file size limit of {} bytes a write failure was reported first, but a following close() returned Ok although the file ({} bytes) is not the complete serialization ({} bytes): {:?}", abbreviate_writer(w), limit, on_disk.len(), expected.len(), outcome)));
                    break;
                }
                if outcome == WOutcome::Complete && !complete {
                    failure = Some(Fail::new("writer.success-on-incomplete-file", format!("writer {:?}: close() returned Ok under a file size limit of {} bytes but the file ({} bytes) is not the complete serialization ({} bytes)", abbreviate_writer(w), limit, on_disk.len(), expected.len())));
                    break;
                }
                if limit >= expected.len() && outcome != WOutcome::Complete {
                    failure = Some(Fail::new("writer.fails-without-fault", format!("writer {:?}: outcome {:?} although the limit {} allows the whole file ({} bytes)", abbreviate_writer(w), outcome, limit, expected.len())));
                    break;
                }
                rep.evals += 1;
                if limit >= 8 && limit < expected.len() {
                    rep.keys.push(mix(wkey, mix(5, limit as u64)));
                }
            }
            let _ = std::fs::remove_file(&path);
            if let Some(f) = failure {
                return Err(f);
            }
            for (k, _) in outcomes {
                rep.class(&format!("writer:{}", k));
            }
        }
        ensure_eq!(rep.evals > 0 || size == 0, true, "harness", "no fault point executed");
        rep.evals = rep.evals.max(1);
        Ok(rep)
    }

    fn health(classes: &BTreeMap<String, u64>, _tier: Tier) -> Result<(), String> {
        for c in ["skip_option", "mapped-truncation", "serialize_to-under-limits", "writer:CtorErr", "writer:PushPanic", "writer:CloseErr", "writer:Complete", "RLVector", "WaveletMatrix", "SparseVector"] {
            if classes.get(c).copied().unwrap_or(0) == 0 {
                return Err(format!("no generated case reached class {}", c));
            }
        }
        Ok(())
    }

    fn assumptions() -> Vec<String> {
        vec![
            "a fault is permanent within one run (one write budget / one file size limit per execution); transient faults followed by a retried close() are out of scope".into(),
            "file size limits are injected with RLIMIT_FSIZE (SIGXFSZ ignored) in a single-threaded worker process; other kinds of write failure (ENOSPC, EIO) are assumed to surface through the same io::Error paths".into(),
            "structures above 3000 bytes are cut at every element boundary +-1 byte and at every byte of the first and last 64 bytes".into(),
        ]
    }
}

fn abbreviate_writer(w: &WriterSpec) -> String {
    crate::util::abbreviate(&format!("{:?}", w), 200)
}

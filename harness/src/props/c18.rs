//! C18 — memory maps are valid while alive, fully released on drop, and fail loudly.

use crate::engine::{CaseResult, Fail, Prop, Report, Tier};
use crate::util::{frac, hash_of, SplitMix};
use crate::{ensure, ensure_eq};
use proptest::prelude::*;
use serde::{Deserialize, Serialize};
use simple_sds::serialize::{MappingMode, MemoryMap};
use std::collections::BTreeMap;

pub struct C18;

#[derive(Clone, Debug, Serialize, Deserialize, Hash)]
pub struct Case {
    /// file size in bytes; None = the file does not exist
    pub size: Option<usize>,
    pub mutable: bool,
    pub cycles: u8,
    pub two_alive: bool,
    pub seed: u64,
    /// writes through a mutable map: (element as a fraction, value)
    pub writes: Vec<(u16, u64)>,
    /// map a directory instead of a file: the OS refuses the mapping (or the open)
    #[serde(default)]
    pub dir: bool,
}

/// bytes of the address space still mapped from `path` (sum over /proc/self/maps lines naming it)
fn mapped_bytes(path: &str) -> Result<usize, Fail> {
    let maps = std::fs::read_to_string("/proc/self/maps").map_err(|e| Fail::new("infra", format!("cannot read /proc/self/maps: {}", e)))?;
    let mut total = 0usize;
    for line in maps.lines() {
        if line.ends_with(path) || line.contains(&format!("{} (deleted)", path)) {
            if let Some(range) = line.split_whitespace().next() {
                let mut it = range.split('-');
                let a = usize::from_str_radix(it.next().unwrap_or("0"), 16).unwrap_or(0);
                let b = usize::from_str_radix(it.next().unwrap_or("0"), 16).unwrap_or(0);
                total += b.saturating_sub(a);
            }
        }
    }
    Ok(total)
}

fn content(seed: u64, size: usize) -> Vec<u8> {
    let mut rng = SplitMix::new(seed);
    let mut v = Vec::with_capacity(size);
    while v.len() < size {
        v.extend_from_slice(&rng.next().to_le_bytes());
    }
    v.truncate(size);
    v
}

fn elements(bytes: &[u8]) -> Vec<u64> {
    bytes.chunks_exact(8).map(|c| u64::from_le_bytes([c[0], c[1], c[2], c[3], c[4], c[5], c[6], c[7]])).collect()
}

impl Prop for C18 {
    type Case = Case;
    const ID: &'static str = "C18";
    const ISOLATE: bool = true; // a bad mapping aborts or segfaults the process: one worker process per shard
    const RULE: &'static str = "a directory (mapping refused by the OS) and file sizes {0, 8, 16..4088, 4096, 8192, k pages +-8 for k up to 64, sizes not divisible by 8, missing file} x {ReadOnly, Mutable} x 1..5 map/drop cycles, optionally two maps of the same file alive at once, random content: MemoryMap::new must be Err for missing files and sizes not divisible by 8, for an empty file Err or a valid empty slice; otherwise len() = size/8, as_ref() equals the file's elements over the whole length, mode()/filename() echo, /proc/self/maps lists at least size bytes for the path while the map is alive and NO byte after drop, values written through as_mut_slice are in the file after drop. Non-trivial: size > one page (a short munmap would leave a remainder) or size 0; distinct by (size, mode, cycles, two_alive).";

    fn cases(tier: Tier) -> u32 {
        tier.pick(1500, 20_000)
    }

    fn strategy(_tier: Tier, _cfg: &str) -> BoxedStrategy<Case> {
        let size = prop_oneof![
            1 => Just(None),
            2 => Just(Some(0usize)),
            2 => prop_oneof![Just(Some(8usize)), Just(Some(16)), Just(Some(4088)), Just(Some(4096)), Just(Some(4104)), Just(Some(8192))],
            3 => (1usize..=511).prop_map(|k| Some(8 * k)),
            6 => (1usize..=64, -1i32..=1).prop_map(|(p, d)| Some((p * 4096) as i64 + 8 * d as i64).map(|v| v.max(8) as usize)),
            3 => (1usize..=64 * 512).prop_map(|k| Some(8 * k)),
            2 => (0usize..=20_000, 1usize..=7).prop_map(|(k, r)| Some(8 * k + r)),
        ];
        (size, any::<bool>(), 1u8..=5, proptest::bool::weighted(0.3), any::<u64>(), proptest::collection::vec((any::<u16>(), any::<u64>()), 0..6), proptest::bool::weighted(0.04))
            .prop_map(|(size, mutable, cycles, two_alive, seed, writes, dir)| Case { size, mutable, cycles, two_alive, seed, writes, dir })
            .boxed()
    }

    fn run(case: &Case) -> CaseResult {
        let mut rep = Report::new();
        let key = hash_of(case);
        let path = std::env::temp_dir().join(format!("c18-{}-{:016x}", std::process::id(), key));
        let path_str = path.to_string_lossy().to_string();
        let mode = if case.mutable { MappingMode::Mutable } else { MappingMode::ReadOnly };
        let _ = std::fs::remove_file(&path);
        let link_path = std::env::temp_dir().join(format!("c18-link-{}-{:016x}", std::process::id(), key));
        let res = (|| -> Result<(), Fail> {
            if case.dir {
                // a directory can be opened read-only and has a size that is a multiple of 8, but cannot be mapped
                let dir = std::env::temp_dir();
                ensure!(MemoryMap::new(&dir, mode).is_err(), "MemoryMap.new.refused", "mapping a directory (refused by the OS) returned Ok");
                rep.class("directory(refused-by-OS)");
                return Ok(());
            }
            let size = match case.size {
                None => {
                    ensure!(MemoryMap::new(&path, mode).is_err(), "MemoryMap.new.missing", "mapping a missing file returned Ok");
                    rep.class("missing-file");
                    return Ok(());
                }
                Some(s) => s,
            };
            let mut bytes = content(case.seed, size);
            std::fs::write(&path, &bytes).map_err(|e| Fail::new("infra", format!("cannot write scratch file: {}", e)))?;
            // in a quarter of the cases the file is mapped through a symbolic link: the map must cover the file, not the link
            let link = std::env::temp_dir().join(format!("c18-link-{}-{:016x}", std::process::id(), key));
            let via_link = case.seed % 4 == 0;
            if via_link {
                let _ = std::fs::remove_file(&link);
                std::os::unix::fs::symlink(&path, &link).map_err(|e| Fail::new("infra", format!("cannot create a symbolic link: {}", e)))?;
                rep.class("mapped-through-symlink");
            }
            let mpath: &std::path::Path = if via_link { &link } else { &path };
            if size % 8 != 0 {
                ensure!(MemoryMap::new(mpath, mode).is_err(), "MemoryMap.new.size", "mapping a file of {} bytes (not a multiple of 8) returned Ok", size);
                ensure_eq!(mapped_bytes(&path_str)?, 0, "MemoryMap.leak", "bytes mapped after a refused mapping");
                rep.class("size-not-multiple-of-8");
                return Ok(());
            }
            for cycle in 0..case.cycles {
                let map = MemoryMap::new(mpath, mode);
                if size == 0 {
                    // either refused, or a valid empty slice
                    if let Ok(m) = &map {
                        ensure_eq!(m.len(), 0, "MemoryMap.len", "len() of a map of an empty file");
                        ensure!(m.is_empty(), "MemoryMap.is_empty", "is_empty() of a map of an empty file");
                        let s: &[u64] = m.as_ref();
                        ensure_eq!(s.len(), 0, "MemoryMap.as_ref", "slice length for an empty file");
                        rep.class("empty-file:mapped");
                    } else {
                        rep.class("empty-file:refused");
                    }
                    drop(map);
                    ensure_eq!(mapped_bytes(&path_str)?, 0, "MemoryMap.leak", "bytes mapped after dropping the map of an empty file");
                    continue;
                }
                let mut map = map.map_err(|e| Fail::new("MemoryMap.new", format!("mapping a file of {} bytes failed: {}", size, e)))?;
                ensure_eq!(map.len(), size / 8, "MemoryMap.len", "len() for a file of {} bytes", size);
                ensure_eq!(map.is_empty(), false, "MemoryMap.is_empty", "is_empty()");
                ensure_eq!(map.mode(), mode, "MemoryMap.mode", "mode()");
                ensure_eq!(map.filename(), mpath, "MemoryMap.filename", "filename()");
                {
                    let s: &[u64] = map.as_ref();
                    ensure_eq!(s.len(), size / 8, "MemoryMap.as_ref", "slice length");
                    let want = elements(&bytes);
                    if let Some(i) = s.iter().zip(want.iter()).position(|(a, b)| a != b) {
                        return Err(Fail::new("MemoryMap.content", format!("element {} of the mapped slice is {:#x}, the file has {:#x} (size {}, cycle {})", i, s[i], want[i], size, cycle)));
                    }
                }
                let alive = mapped_bytes(&path_str)?;
                ensure!(alive >= size, "MemoryMap.mapped-while-alive", "/proc/self/maps lists {} bytes for the file while a map of {} bytes is alive", alive, size);
                let second = if case.two_alive {
                    let m2 = MemoryMap::new(mpath, MappingMode::ReadOnly).map_err(|e| Fail::new("MemoryMap.new", format!("second mapping failed: {}", e)))?;
                    ensure!(mapped_bytes(&path_str)? >= 2 * size, "MemoryMap.mapped-while-alive", "two live maps but fewer than 2*size bytes listed");
                    Some(m2)
                } else {
                    None
                };
                if case.mutable {
                    for &(f, v) in &case.writes {
                        let i = frac(f, size / 8 - 1);
                        unsafe { map.as_mut_slice()[i] = v };
                        bytes[8 * i..8 * i + 8].copy_from_slice(&v.to_le_bytes());
                    }
                    let s: &[u64] = map.as_ref();
                    ensure!(s == &elements(&bytes)[..], "MemoryMap.write-visible", "values written through as_mut_slice are not visible through as_ref");
                    if let Some(m2) = &second {
                        // MAP_SHARED: the other mapping of the same file sees the writes
                        let s2: &[u64] = m2.as_ref();
                        ensure!(s2 == &elements(&bytes)[..], "MemoryMap.write-visible", "values written through one map are not visible through a second map of the same file");
                    }
                }
                drop(map);
                if let Some(m2) = second {
                    let left = mapped_bytes(&path_str)?;
                    let page_rounded = (size + 4095) / 4096 * 4096;
                    ensure!(left >= size && left <= page_rounded, "MemoryMap.leak", "after dropping one of two maps of {} bytes, {} bytes of the file are still mapped (one live map accounts for {})", size, left, page_rounded);
                    let s2: &[u64] = m2.as_ref();
                    ensure!(s2 == &elements(&bytes)[..], "MemoryMap.content", "the second map changed when the first was dropped");
                    drop(m2);
                }
                let left = mapped_bytes(&path_str)?;
                ensure_eq!(left, 0, "MemoryMap.leak", "bytes of the file still mapped after the map of a {}-byte file was dropped (cycle {})", size, cycle);
                let on_disk = std::fs::read(&path).map_err(|e| Fail::new("infra", format!("cannot read the file back: {}", e)))?;
                ensure!(on_disk == bytes, "MemoryMap.write-persisted", "file content after drop differs from what was {} (mode {:?})", if case.mutable { "written through the map" } else { "there before" }, mode);
            }
            Ok(())
        })();
        let _ = std::fs::remove_file(&path);
        let _ = std::fs::remove_file(&link_path);
        res?;
        if case.dir {
            return Ok(rep);
        }
        if let Some(size) = case.size {
            rep.class(match size {
                0 => "size:0",
                s if s % 8 != 0 => "size:odd",
                1..=4095 => "size:sub-page",
                4096 => "size:one-page",
                s if s % 4096 == 0 => "size:whole-pages",
                _ => "size:pages+partial",
            });
            rep.class(if case.mutable { "mode:mutable" } else { "mode:read-only" });
            rep.class_if(case.two_alive && size >= 8 && size % 8 == 0, "two-maps-alive");
            rep.class_if(case.mutable && !case.writes.is_empty() && size >= 8 && size % 8 == 0, "writes");
            if size > 4096 && size % 8 == 0 || size == 0 {
                rep.nontrivial(hash_of(&(size, case.mutable, case.cycles, case.two_alive)));
            }
        }
        Ok(rep)
    }

    fn health(classes: &BTreeMap<String, u64>, _tier: Tier) -> Result<(), String> {
        for c in ["missing-file", "size:0", "size:odd", "size:sub-page", "size:one-page", "size:whole-pages", "size:pages+partial", "mode:mutable", "mode:read-only", "mapped-through-symlink", "two-maps-alive", "writes", "directory(refused-by-OS)"] {
            if classes.get(c).copied().unwrap_or(0) == 0 {
                return Err(format!("no generated case reached class {}", c));
            }
        }
        Ok(())
    }

    fn assumptions() -> Vec<String> {
        vec![
            "residual mappings are observed through /proc/self/maps (Linux), matched by a path that is unique to the case".into(),
            "mapping refusals by the OS are provoked with an empty file and with a directory only (no ENOMEM)".into(),
            "the validity of the slice is judged by reading all of it (and by std's unsafe-precondition checks on from_raw_parts in both build configurations)".into(),
        ]
    }
}

//! C16 — builders reject invalid steps without side effects and build what was accepted.

use crate::engine::{catch, CaseResult, Fail, Prop, Report, Tier};
use crate::model::{check_bitvec, Plan, RunModel, SetModel};
use crate::props::c03::check_run_iter;
use crate::util::hash_of;
use crate::{ensure, ensure_eq};
use proptest::prelude::*;
use serde::{Deserialize, Serialize};
use simple_sds::ops::BitVec;
use simple_sds::rl_vector::{RLBuilder, RLVector};
use simple_sds::sparse_vector::{SparseBuilder, SparseVector};
use std::collections::BTreeMap;
use std::convert::TryFrom;

pub struct C16;

/// An index relative to the builder's state, so that interesting values (next-1, next, universe-1, universe, MAX) are hit.
#[derive(Clone, Copy, Debug, Serialize, Deserialize, Hash)]
pub enum Idx {
    /// next_index + d - 2 (d in 0..6)
    NearNext(u8),
    /// universe + d - 2
    NearUniverse(u8),
    Abs(usize),
    /// fraction of the universe
    Frac(u16),
    Max(u8),
}

#[derive(Clone, Debug, Serialize, Deserialize, Hash)]
pub enum SOp {
    Set(Idx),
    TrySet(Idx),
    Extend(Vec<Idx>),
    Clone,
}

#[derive(Clone, Copy, Debug, Serialize, Deserialize, Hash)]
pub enum Pos {
    /// len + d - 2
    NearLen(u8),
    Abs(usize),
    /// 2^k + d
    Pow(u8, i8),
    Max(u8),
}

#[derive(Clone, Debug, Serialize, Deserialize, Hash)]
pub enum ROp {
    TrySet(Pos, Pos),
    SetLen(Pos),
    SetBitUnchecked(u16),
    SetRunUnchecked(u16, u16),
    Clone,
}

#[derive(Clone, Debug, Serialize, Deserialize, Hash)]
pub enum Case {
    Sparse { universe: usize, capacity: usize, multiset: bool, ops: Vec<SOp> },
    Rl { ops: Vec<ROp> },
}

#[derive(Clone, Debug)]
struct SModel {
    universe: usize,
    capacity: usize,
    multiset: bool,
    next: usize,
    accepted: Vec<usize>,
}

impl SModel {
    fn resolve(&self, i: Idx) -> usize {
        match i {
            Idx::NearNext(d) => (self.next as i128 + (d % 6) as i128 - 2).clamp(0, usize::MAX as i128) as usize,
            Idx::NearUniverse(d) => (self.universe as i128 + (d % 6) as i128 - 2).clamp(0, usize::MAX as i128) as usize,
            Idx::Abs(v) => v,
            Idx::Frac(f) => ((self.universe as u128 * f as u128) >> 16) as usize,
            Idx::Max(d) => usize::MAX - (d % 3) as usize,
        }
    }
    fn valid(&self, i: usize) -> bool {
        self.accepted.len() < self.capacity && i >= self.next && i < self.universe
    }
    fn accept(&mut self, i: usize) {
        self.accepted.push(i);
        self.next = if self.multiset { i } else { i + 1 };
    }
}

fn observe(b: &SparseBuilder) -> (usize, usize, bool, bool, usize, usize, bool) {
    (b.len(), b.next_index(), b.is_full(), b.is_empty(), b.capacity(), b.universe(), b.is_multiset())
}

fn expect_state(b: &SparseBuilder, m: &SModel, step: usize, what: &str) -> Result<(), Fail> {
    let want = (m.accepted.len(), m.next, m.accepted.len() == m.capacity, m.accepted.is_empty(), m.capacity, m.universe, m.multiset);
    ensure_eq!(observe(b), want, "SparseBuilder.state", "(len, next_index, is_full, is_empty, capacity, universe, is_multiset) after step {} ({})", step, what);
    Ok(())
}

/// Fill the remaining capacity with the smallest valid indexes; returns false when the universe is exhausted first.
fn complete(b: &mut SparseBuilder, m: &mut SModel) -> Result<bool, Fail> {
    while m.accepted.len() < m.capacity {
        let i = m.next;
        if i >= m.universe {
            return Ok(false);
        }
        b.try_set(i).map_err(|e| Fail::new("SparseBuilder.try_set", format!("try_set({}) refused while completing a builder (next {}, universe {}, {} of {} set): {}", i, m.next, m.universe, m.accepted.len(), m.capacity, e)))?;
        m.accept(i);
    }
    Ok(true)
}

fn run_sparse(universe: usize, capacity: usize, multiset: bool, ops: &[SOp], rep: &mut Report) -> Result<(), Fail> {
    // constructor contract
    if !multiset && capacity > universe {
        ensure!(SparseBuilder::new(universe, capacity).is_err(), "SparseBuilder.new", "SparseBuilder::new({}, {}) with more set bits than the universe returned Ok", universe, capacity);
        rep.class("sparse:new-rejected");
        return Ok(());
    }
    let mut b = if multiset { SparseBuilder::multiset(universe, capacity) } else { SparseBuilder::new(universe, capacity).map_err(|e| Fail::new("SparseBuilder.new", format!("new({}, {}) failed: {}", universe, capacity, e)))? };
    let mut m = SModel { universe, capacity, multiset, next: 0, accepted: Vec::new() };
    // builder that only ever sees the accepted calls: a rejected call must leave no hidden residue
    let mut clean = b.clone();
    expect_state(&b, &m, 0, "new")?;
    let mut rejected = false;
    let mut accepted_after_reject = false;
    for (k, op) in ops.iter().enumerate() {
        let step = k + 1;
        match op {
            SOp::TrySet(i) => {
                let i = m.resolve(*i);
                let valid = m.valid(i);
                let res = b.try_set(i);
                ensure_eq!(res.is_ok(), valid, "SparseBuilder.try_set", "try_set({}) with next_index {}, universe {}, {} of {} set (step {})", i, m.next, m.universe, m.accepted.len(), m.capacity, step);
                if valid {
                    m.accept(i);
                    clean.try_set(i).map_err(|e| Fail::new("SparseBuilder.try_set", e.to_string()))?;
                    accepted_after_reject |= rejected;
                } else {
                    rejected = true;
                    rep.class(if m.accepted.len() >= m.capacity { "sparse:reject-full" } else if i < m.next { "sparse:reject-order" } else { "sparse:reject-range" });
                }
            }
            SOp::Set(i) => {
                let i = m.resolve(*i);
                let valid = m.valid(i);
                let res = catch(|| b.set(i));
                ensure_eq!(res.is_ok(), valid, "SparseBuilder.set", "set({}) must {} (next_index {}, universe {}, {} of {} set, step {})", i, if valid { "succeed" } else { "panic" }, m.next, m.universe, m.accepted.len(), m.capacity, step);
                if valid {
                    m.accept(i);
                    clean.set(i);
                    accepted_after_reject |= rejected;
                } else {
                    rejected = true;
                }
            }
            SOp::Extend(items) => {
                let resolved: Vec<usize> = {
                    // indexes are resolved against the state as it evolves
                    let mut tmp = m.clone();
                    let mut out = Vec::new();
                    for it in items {
                        let i = tmp.resolve(*it);
                        out.push(i);
                        if tmp.valid(i) {
                            tmp.accept(i);
                        } else {
                            break;
                        }
                    }
                    out
                };
                let all_valid = {
                    let mut tmp = m.clone();
                    resolved.iter().all(|&i| {
                        let v = tmp.valid(i);
                        if v {
                            tmp.accept(i);
                        }
                        v
                    })
                };
                let res = catch(|| b.extend(resolved.iter().copied()));
                ensure_eq!(res.is_ok(), all_valid, "SparseBuilder.extend", "extend({:?}) must {} (step {})", resolved, if all_valid { "succeed" } else { "panic at the first invalid index" }, step);
                for &i in &resolved {
                    if m.valid(i) {
                        m.accept(i);
                        clean.set(i);
                        accepted_after_reject |= rejected;
                    } else {
                        rejected = true;
                        break;
                    }
                }
            }
            SOp::Clone => {
                b = b.clone();
            }
        }
        expect_state(&b, &m, step, &format!("{:?}", op))?;
    }
    // conversion succeeds exactly when the builder is full
    let full = m.accepted.len() == m.capacity;
    if !full {
        ensure!(SparseVector::try_from(b.clone()).is_err(), "SparseVector.try_from", "try_from succeeded on a builder with {} of {} bits set", m.accepted.len(), m.capacity);
        rep.class("sparse:try_from-rejected");
    }
    let mut m2 = m.clone();
    let completed = complete(&mut b, &mut m)?;
    let completed2 = complete(&mut clean, &mut m2)?;
    ensure_eq!(completed, completed2, "harness", "completion differs");
    if !completed {
        ensure!(SparseVector::try_from(b).is_err(), "SparseVector.try_from", "try_from succeeded on a builder that cannot be filled");
        return Ok(());
    }
    expect_state(&b, &m, usize::MAX, "completion")?;
    let sv = SparseVector::try_from(b).map_err(|e| Fail::new("SparseVector.try_from", format!("try_from failed on a full builder: {}", e)))?;
    let sv_clean = SparseVector::try_from(clean).map_err(|e| Fail::new("SparseVector.try_from", format!("try_from failed on a full builder: {}", e)))?;
    ensure!(sv == sv_clean, "SparseBuilder.residue", "a builder that saw rejected calls produced a different vector than one that only saw the accepted calls {:?}", m.accepted);
    let model = SetModel::new(universe, m.accepted.clone());
    let mut plan = if universe <= 1500 { Plan::all(&model) } else { Plan::sampled(&model, 100, &[], &[], 50_000) };
    plan.skip_zero_side = multiset;
    check_bitvec(&sv, &model, &plan, "SparseVector(from builder)")?;
    ensure_eq!(sv.len(), universe, "SparseVector.len", "len()");
    rep.class(if multiset { "sparse:multiset" } else { "sparse:set" });
    if rejected && accepted_after_reject {
        rep.class("sparse:accept-after-reject");
        rep.nontrivial(hash_of(&(universe, capacity, multiset, ops)));
    }
    Ok(())
}

#[derive(Clone, Debug, Default)]
struct RModel {
    len: usize,
    ones: usize,
    runs: Vec<(usize, usize)>,
}

impl RModel {
    fn resolve(&self, p: Pos) -> usize {
        match p {
            Pos::NearLen(d) => (self.len as i128 + (d % 6) as i128 - 2).clamp(0, usize::MAX as i128) as usize,
            Pos::Abs(v) => v,
            Pos::Pow(k, d) => ((1i128 << (k % 64)) + d as i128).clamp(0, usize::MAX as i128) as usize,
            Pos::Max(d) => usize::MAX - (d % 3) as usize,
        }
    }
    fn add_run(&mut self, start: usize, len: usize) {
        if len == 0 {
            return;
        }
        self.runs.push((start, len));
        self.len = start + len;
        self.ones += len;
    }
}

fn expect_rl(b: &RLBuilder, m: &RModel, step: usize, what: &str) -> Result<(), Fail> {
    ensure_eq!((b.len(), b.count_ones(), b.count_zeros(), b.is_empty()), (m.len, m.ones, m.len - m.ones, m.len == 0), "RLBuilder.state", "(len, count_ones, count_zeros, is_empty) after step {} ({})", step, what);
    Ok(())
}

fn run_rl(ops: &[ROp], rep: &mut Report) -> Result<(), Fail> {
    let mut b = RLBuilder::new();
    let mut m = RModel::default();
    let mut clean = RLBuilder::new();
    expect_rl(&b, &m, 0, "new")?;
    let mut rejected = false;
    let mut accepted_after_reject = false;
    let mut f9_shape = false;
    let mut last_was_set_len_growth = false;
    for (k, op) in ops.iter().enumerate() {
        let step = k + 1;
        let mut this_set_len_growth = false;
        match op {
            ROp::TrySet(s, l) => {
                let start = m.resolve(*s);
                // lengths: small relative values or huge ones that overflow
                let len = match l {
                    Pos::NearLen(d) => (*d % 6) as usize,
                    other => m.resolve(*other),
                };
                let overflow = usize::MAX - len < start;
                let valid = start >= m.len && !overflow;
                let res = b.try_set(start, len);
                if len == 0 && start < m.len {
                    // "does nothing if len == 0" and "Err if start < len" both apply: either answer, but no change
                } else {
                    ensure_eq!(res.is_ok(), valid, "RLBuilder.try_set", "try_set({}, {}) with builder length {} (step {})", start, len, m.len, step);
                }
                if valid && res.is_ok() {
                    if len > 0 {
                        f9_shape |= last_was_set_len_growth && start == m.len;
                        accepted_after_reject |= rejected;
                    }
                    m.add_run(start, len);
                    clean.try_set(start, len).map_err(|e| Fail::new("RLBuilder.try_set", e))?;
                } else if !valid {
                    rejected = true;
                    rep.class(if overflow { "rl:reject-overflow" } else { "rl:reject-order" });
                }
            }
            ROp::SetLen(p) => {
                let n = m.resolve(*p);
                b.set_len(n);
                clean.set_len(n);
                if n > m.len {
                    m.len = n;
                    this_set_len_growth = true;
                } else {
                    rep.class("rl:set_len-no-effect");
                }
            }
            ROp::SetBitUnchecked(d) => {
                // valid arguments only: index >= len and index + 1 representable
                if let Some(i) = m.len.checked_add(*d as usize % 300) {
                    if i < usize::MAX {
                        f9_shape |= last_was_set_len_growth && i == m.len;
                        unsafe { b.set_bit_unchecked(i) };
                        unsafe { clean.set_bit_unchecked(i) };
                        m.add_run(i, 1);
                        accepted_after_reject |= rejected;
                    }
                }
            }
            ROp::SetRunUnchecked(d, l) => {
                let len = *l as usize % 200;
                if let Some(s) = m.len.checked_add(*d as usize % 300) {
                    if s.checked_add(len).is_some() {
                        f9_shape |= last_was_set_len_growth && s == m.len && len > 0;
                        unsafe { b.set_run_unchecked(s, len) };
                        unsafe { clean.set_run_unchecked(s, len) };
                        m.add_run(s, len);
                        accepted_after_reject |= rejected && len > 0;
                    }
                }
            }
            ROp::Clone => {
                b = b.clone();
            }
        }
        last_was_set_len_growth = this_set_len_growth;
        expect_rl(&b, &m, step, &format!("{:?}", op))?;
    }
    let rl = RLVector::from(b);
    let rl_clean = RLVector::from(clean);
    let model = RunModel::new(m.len, &m.runs);
    ensure_eq!(rl.len(), m.len, "RLVector.len", "len() of the built vector");
    ensure_eq!(rl.count_ones(), m.ones, "RLVector.count_ones", "count_ones() of the built vector");
    let plan = crate::props::c03::rl_plan(&model, &[], 2000);
    check_bitvec(&rl, &model, &plan, "RLVector(from builder)")?;
    check_run_iter(&rl, &model, 10_000)?;
    ensure!(rl == rl_clean, "RLBuilder.residue", "a builder that saw rejected calls produced a different vector than one that only saw the accepted calls");
    rep.class("rl");
    rep.class_if(f9_shape, "rl:set_len-then-run-at-len");
    if rejected && accepted_after_reject {
        rep.class("rl:accept-after-reject");
        rep.nontrivial(hash_of(&ops));
    }
    Ok(())
}

impl Prop for C16 {
    type Case = Case;
    const ID: &'static str = "C16";
    const RULE: &'static str = "call histories (0..40 calls) on SparseBuilder (universe 0..300 or huge, capacity up to the universe for sets / up to 3x for multisets; set [documented panic when invalid], try_set, extend, clone; indexes biased to next_index-2..+3, universe-2..+3, usize::MAX-2..MAX) and RLBuilder (try_set with starts biased to len-2..+3 and lengths incl. 0 and overflowing ones, set_len smaller/equal/larger, set_bit_unchecked / set_run_unchecked with valid arguments, clone) interpreted against model state machines: a call is accepted iff the model says it is valid; after every call all observers (len, next_index, is_full, is_empty, capacity, universe, is_multiset / len, count_ones, count_zeros, is_empty) equal the model; conversion succeeds iff the sparse builder is full; the built vector's set bits are exactly the accepted positions (checked with the C02/C03/C15 query oracle) and equal to the vector from a builder that only saw the accepted calls. Non-trivial: a rejected call followed by an accepted call; distinct by history.";

    fn cases(tier: Tier) -> u32 {
        tier.pick(40_000, 400_000)
    }

    fn strategy(_tier: Tier, _cfg: &str) -> BoxedStrategy<Case> {
        let idx = prop_oneof![
            8 => (0u8..6).prop_map(Idx::NearNext),
            3 => (0u8..6).prop_map(Idx::NearUniverse),
            3 => any::<u16>().prop_map(Idx::Frac),
            1 => (0usize..400).prop_map(Idx::Abs),
            1 => (0u8..3).prop_map(Idx::Max),
        ];
        let sop = prop_oneof![
            4 => idx.clone().prop_map(SOp::Set),
            8 => idx.clone().prop_map(SOp::TrySet),
            2 => proptest::collection::vec(idx, 0..6).prop_map(SOp::Extend),
            1 => Just(SOp::Clone),
        ];
        let sparse = (prop_oneof![8 => 0usize..300, 1 => prop_oneof![Just(usize::MAX), Just(1usize << 63), Just(1usize << 32)]], 0usize..60, any::<bool>(), proptest::collection::vec(sop, 0..40)).prop_map(|(universe, cap, multiset, ops)| {
            let capacity = if multiset { cap } else if cap % 7 == 0 { cap } else { cap.min(universe) };
            // a huge universe with capacity 0 would allocate universe/2 bits of buckets
            let capacity = if universe > (1 << 27) { capacity.max(1) } else { capacity };
            Case::Sparse { universe, capacity, multiset, ops }
        });
        let pos = prop_oneof![
            8 => (0u8..6).prop_map(Pos::NearLen),
            2 => (0usize..500).prop_map(Pos::Abs),
            2 => (0u8..64, -2i8..=2).prop_map(|(k, d)| Pos::Pow(k, d)),
            1 => (0u8..3).prop_map(Pos::Max),
        ];
        let rop = prop_oneof![
            8 => (pos.clone(), pos.clone()).prop_map(|(s, l)| ROp::TrySet(s, l)),
            4 => pos.prop_map(ROp::SetLen),
            2 => any::<u16>().prop_map(ROp::SetBitUnchecked),
            2 => (any::<u16>(), any::<u16>()).prop_map(|(d, l)| ROp::SetRunUnchecked(d, l)),
            1 => Just(ROp::Clone),
        ];
        let rl = proptest::collection::vec(rop, 0..40).prop_map(|ops| Case::Rl { ops });
        prop_oneof![sparse, rl].boxed()
    }

    fn run(case: &Case) -> CaseResult {
        let mut rep = Report::new();
        match case {
            Case::Sparse { universe, capacity, multiset, ops } => run_sparse(*universe, *capacity, *multiset, ops, &mut rep)?,
            Case::Rl { ops } => run_rl(ops, &mut rep)?,
        }
        Ok(rep)
    }

    fn health(classes: &BTreeMap<String, u64>, _tier: Tier) -> Result<(), String> {
        for c in ["sparse:set", "sparse:multiset", "sparse:new-rejected", "sparse:reject-full", "sparse:reject-order", "sparse:reject-range", "sparse:try_from-rejected", "sparse:accept-after-reject", "rl", "rl:reject-overflow", "rl:reject-order", "rl:set_len-no-effect", "rl:set_len-then-run-at-len", "rl:accept-after-reject"] {
            if classes.get(c).copied().unwrap_or(0) == 0 {
                return Err(format!("no generated case reached class {}", c));
            }
        }
        Ok(())
    }

    fn sanitize(case: &mut Case) {
        if let Case::Sparse { universe, capacity, .. } = case {
            *capacity %= 80;
            // an empty builder spends universe/2 bits on buckets: keep byte-decoded cases cheap
            if *capacity == 0 && *universe > (1 << 16) {
                *universe = 1 << 16;
            }
        }
    }

    fn assumptions() -> Vec<String> {
        vec![
            "the unsafe set_unchecked / set_bit_unchecked / set_run_unchecked are only called with arguments inside their documented contracts".into(),
            "RLBuilder::try_set(start < len, 0) may return Ok or Err (the documentation states both 'does nothing if len == 0' and 'Err if start < len'); in both cases the state must be unchanged".into(),
            "a sparse builder with capacity 0 is only created for universes below 2^27 (the bucket array is universe/2 bits)".into(),
        ]
    }
}

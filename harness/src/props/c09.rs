//! C09 — queries are total: out-of-range and extreme arguments give the documented answer.

use crate::engine::{CaseResult, Fail, Prop, Report, Tier};
use crate::gen::{bits_spec, BitsSpec};
use crate::model::{check_bitvec, Bits, Model, Plan, RunModel, SetModel};
use crate::props::c01::{rl_from, sparse_from};
use crate::props::c02::{build_sparse, BigSet};
use crate::props::c03::{build_rl, Mag, Shape};
use crate::props::c04::{self, VecModel};
use crate::util::{frac, hash_of, mix};
use crate::{ensure, ensure_eq};
use proptest::prelude::*;
use serde::{Deserialize, Serialize};
use simple_sds::int_vector::{IntVector, IntVectorWriter};
use simple_sds::ops::{BitVec, PredSucc, Rank, Select, SelectZero};
use simple_sds::rl_vector::RLBuilder;
use simple_sds::sparse_vector::SparseBuilder;
use simple_sds::wavelet_matrix::wm_core::WMCore;
use simple_sds::wavelet_matrix::WaveletMatrix;
use std::collections::BTreeMap;

pub struct C09;

#[derive(Clone, Debug, Serialize, Deserialize, Hash)]
pub enum Case {
    /// the three bitvector types from the same bits
    Three { bits: BitsSpec, consumed: Vec<u16>, extra: Vec<u64>, #[serde(default)] route: u8 },
    /// sparse vector in a universe that cannot be materialised
    BigSparse { set: BigSet, extra: Vec<u64> },
    /// run-length vector with huge runs
    BigRl { shape: Shape, tail: Option<Mag>, extra: Vec<u64> },
    /// wavelet matrix and core
    Wm { vals: Vec<u16>, wide: bool, extra: Vec<u64> },
    /// constructors and builders with invalid parameters
    Ctor { widths: Vec<u64>, n: usize, m: usize, starts: Vec<(u64, u64)> },
}

fn extremes(n: usize, count: usize, extra: &[u64]) -> Vec<usize> {
    let mut v = vec![0, 1, n.saturating_sub(1), n, n.saturating_add(1), n.saturating_mul(2), count.saturating_sub(1), count, count.saturating_add(1), 1usize << 63, (1usize << 63) - 1, (1usize << 63) + 1, usize::MAX / 2, usize::MAX - 1, usize::MAX, usize::MAX - n.min(usize::MAX), usize::MAX - count.min(usize::MAX), 1usize << 32, u32::MAX as usize];
    for &e in extra {
        v.push(e as usize);
        v.push(usize::MAX - (e as usize % 1024));
    }
    v.sort_unstable();
    v.dedup();
    v
}

fn extreme_plan<M: Model>(model: &M, extra: &[u64]) -> Plan {
    let n = model.n();
    let idx = extremes(n, model.m(), extra);
    let ranks = extremes(n, model.m(), extra);
    let mut zr = extremes(n, model.zeros(), extra);
    zr.extend(ranks.iter().copied());
    zr.sort_unstable();
    zr.dedup();
    Plan { idx, ranks, zranks: zr, iter_limit: 0, skip_zero_side: false }
}

/// After consuming `j` items: nth(k) (and nth_back(k)) with k beyond the remainder returns None and exhausts the iterator.
macro_rules! nth_total {
    ($make:expr, $total:expr, $j:expr, $k:expr, $name:expr, $back:tt) => {{
        let total: usize = $total;
        let j: usize = ($j).min(total);
        let mut it = $make;
        for _ in 0..j {
            it.next();
        }
        let remaining = total - j;
        ensure_eq!(it.len(), remaining, $name, "len() after consuming {} of {} items", j, total);
        let k: usize = $k;
        if k >= remaining {
            let got = it.nth(k);
            ensure!(got.is_none(), $name, "nth({}) with {} items remaining returned {:?}, must be None", k, remaining, got);
            ensure_eq!(it.len(), 0, $name, "len() after nth({}) beyond the remainder ({} remaining): the iterator must be exhausted", k, remaining);
            ensure!(it.next().is_none(), $name, "next() after nth({}) beyond the remainder", k);
            nth_total!(@back $back, $make, total, j, k, $name);
        }
    }};
    (@back true, $make:expr, $total:expr, $j:expr, $k:expr, $name:expr) => {{
        let mut it = $make;
        for _ in 0..$j {
            it.next_back();
        }
        let remaining = $total - $j;
        if $k >= remaining {
            let got = it.nth_back($k);
            ensure!(got.is_none(), $name, "nth_back({}) with {} items remaining returned {:?}, must be None", $k, remaining, got);
            ensure_eq!(it.len(), 0, $name, "len() after nth_back({}) beyond the remainder", $k);
            ensure!(it.next_back().is_none() && it.next().is_none(), $name, "next()/next_back() after nth_back({}) beyond the remainder", $k);
            // the same from the other side: items consumed from the BACK, then nth() beyond what remains
            let mut it = $make;
            for _ in 0..$j {
                it.next_back();
            }
            let got = it.nth($k);
            ensure!(got.is_none(), $name, "nth({}) after {} next_back() calls with {} items remaining returned {:?}, must be None", $k, $j, remaining, got);
            ensure_eq!(it.len(), 0, $name, "len() after nth({}) beyond the remainder on an iterator consumed from the back", $k);
            ensure!(it.next().is_none() && it.next_back().is_none(), $name, "next()/next_back() after nth({}) beyond the remainder", $k);
        }
    }};
    (@back false, $make:expr, $total:expr, $j:expr, $k:expr, $name:expr) => {};
}

fn run_three(bits: &Bits, consumed: &[u16], extra: &[u64], route: u8, rep: &mut Report) -> Result<(), Fail> {
    let model = SetModel::from_bits(bits);
    let n = bits.len;
    let m = model.m();
    let z = model.zeros();
    // any public construction route of the plain vector (pushes with popped junk, complement(), iterators, conversions, ...)
    let mut bv = crate::props::c01::build_route(bits, route, &[route, 5, 1, 17]);
    // the supports are enabled in an order that depends on the case (enabling must work in any order)
    for k in 0..3u8 {
        crate::props::c01::enable(&mut bv, (k + route / 11) % 3);
    }
    bv.enable_pred_succ();
    let sv = sparse_from(bits);
    let rl = rl_from(bits);
    let plan = extreme_plan(&model, extra);
    check_bitvec(&bv, &model, &plan, "BitVector")?;
    check_bitvec(&sv, &model, &plan, "SparseVector")?;
    check_bitvec(&rl, &model, &plan, "RLVector")?;

    // the documented out-of-range answers, stated directly, and agreement between the three types
    for &i in &plan.idx {
        if i >= n {
            ensure_eq!((bv.rank(i), sv.rank(i), rl.rank(i)), (m, m, m), "rank.past-end", "rank({}) on a vector of length {} must be count_ones", i, n);
            ensure!(bv.successor(i).next().is_none() && sv.successor(i).next().is_none() && rl.successor(i).next().is_none(), "successor.past-end", "successor({}) past the end must be empty", i);
            ensure_eq!(bv.successor(i).len() + sv.successor(i).len() + rl.successor(i).len(), 0, "successor.past-end", "len() of successor({}) past the end", i);
            let want = if n == 0 { None } else { model.predecessor(n - 1) };
            ensure_eq!((bv.predecessor(i).next(), sv.predecessor(i).next(), rl.predecessor(i).next()), (want, want, want), "predecessor.past-end", "predecessor({}) past the end must equal predecessor(len-1)", i);
        }
        let a = (bv.rank(i), bv.predecessor(i).next(), bv.successor(i).next());
        let b = (sv.rank(i), sv.predecessor(i).next(), sv.successor(i).next());
        let c = (rl.rank(i), rl.predecessor(i).next(), rl.successor(i).next());
        ensure!(a == b && b == c, "three-types-agree", "rank/predecessor/successor({}) differ between the types: plain {:?}, sparse {:?}, run-length {:?}", i, a, b, c);
    }
    for &r in &plan.ranks {
        if r >= m {
            ensure!(bv.select(r).is_none() && sv.select(r).is_none() && rl.select(r).is_none(), "select.past-end", "select({}) with {} set bits must be None", r, m);
            ensure_eq!(bv.select_iter(r).len() + sv.select_iter(r).len() + rl.select_iter(r).len(), 0, "select_iter.past-end", "len() of select_iter({}) past the end", r);
            ensure!(bv.select_iter(r).next().is_none() && sv.select_iter(r).next().is_none() && rl.select_iter(r).next().is_none(), "select_iter.past-end", "select_iter({}) past the end must be empty", r);
        }
        if r >= z {
            ensure!(bv.select_zero(r).is_none() && sv.select_zero(r).is_none() && rl.select_zero(r).is_none(), "select_zero.past-end", "select_zero({}) with {} unset bits must be None", r, z);
            ensure_eq!(bv.select_zero_iter(r).len() + sv.select_zero_iter(r).len() + rl.select_zero_iter(r).len(), 0, "select_zero_iter.past-end", "len() of select_zero_iter({}) past the end", r);
            ensure!(bv.select_zero_iter(r).next().is_none() && sv.select_zero_iter(r).next().is_none() && rl.select_zero_iter(r).next().is_none(), "select_zero_iter.past-end", "select_zero_iter({}) past the end must be empty", r);
        }
        let a = (bv.select(r), bv.select_zero(r));
        let b = (sv.select(r), sv.select_zero(r));
        let c = (rl.select(r), rl.select_zero(r));
        ensure!(a == b && b == c, "three-types-agree", "select/select_zero({}) differ between the types: plain {:?}, sparse {:?}, run-length {:?}", r, a, b, c);
    }

    // nth / nth_back beyond the remainder on partly consumed iterators
    if n <= 4000 {
        let mut js: Vec<usize> = vec![0, 1];
        for &c in consumed {
            js.push(frac(c, n));
        }
        for &j in &js {
            for sel in 0..5usize {
                // k relative to what remains of each iterator, or absolute extremes
                let k_for = |total: usize| -> usize {
                    let rem = total - j.min(total);
                    match sel {
                        0 => rem,
                        1 => rem.saturating_add(1),
                        2 => 1usize << 63,
                        3 => usize::MAX - 1,
                        _ => usize::MAX,
                    }
                };
                nth_total!(bv.iter(), n, j, k_for(n), "BitVector.iter.nth", true);
                nth_total!(bv.one_iter(), m, j, k_for(m), "BitVector.one_iter.nth", true);
                nth_total!(bv.zero_iter(), z, j, k_for(z), "BitVector.zero_iter.nth", true);
                nth_total!(sv.iter(), n, j, k_for(n), "SparseVector.iter.nth", true);
                nth_total!(sv.one_iter(), m, j, k_for(m), "SparseVector.one_iter.nth", true);
                nth_total!(sv.zero_iter(), z, j, k_for(z), "SparseVector.zero_iter.nth", false);
                nth_total!(rl.iter(), n, j, k_for(n), "RLVector.iter.nth", false);
                nth_total!(rl.one_iter(), m, j, k_for(m), "RLVector.one_iter.nth", false);
                nth_total!(rl.zero_iter(), z, j, k_for(z), "RLVector.zero_iter.nth", false);
            }
        }
        // positioned iterators
        let r = m / 2;
        for kk in [m.saturating_sub(r), m.saturating_sub(r) + 1, usize::MAX] {
            nth_total!(bv.select_iter(r), m - r.min(m), 0usize, kk, "BitVector.select_iter.nth", true);
            nth_total!(sv.select_iter(r), m - r.min(m), 0usize, kk, "SparseVector.select_iter.nth", true);
            nth_total!(rl.select_iter(r), m - r.min(m), 0usize, kk, "RLVector.select_iter.nth", false);
        }
        rep.class("nth-beyond-remainder");
    }
    Ok(())
}

fn run_wm(vals: &[u16], wide: bool, extra: &[u64]) -> Result<(), Fail> {
    let vals: Vec<u64> = if wide { vals.iter().map(|&v| (v as u64) << 40 | v as u64).collect() } else { vals.iter().map(|&v| v as u64).collect() };
    let vm = VecModel::new(vals.clone());
    let n = vals.len();
    let case = c04::Case { vals: c04::Vals::Explicit(vec![]), src: 3, extra_vals: extra.to_vec(), extra_idx: vec![0, 1000, 30000, 65535] };
    let mut rep = Report::new();
    if !wide {
        let wm = WaveletMatrix::from(vals.clone());
        c04::check_wm(&wm, &vm, &case, &mut rep)?;
        // direct statements with extreme arguments
        let vs: Vec<u64> = extremes(n, n, extra).into_iter().map(|x| x as u64).chain(vals.iter().copied().take(4)).collect();
        for &v in &vs {
            let c = vm.occ(v).len();
            for i in extremes(n, c, extra) {
                use simple_sds::ops::VectorIndex;
                if i >= n {
                    ensure_eq!(wm.rank(i, v), c, "WaveletMatrix.rank.past-end", "rank({}, {}) past the end must be the number of occurrences", i, v);
                    ensure!(wm.successor(i, v).next().is_none(), "WaveletMatrix.successor.past-end", "successor({}, {}) past the end", i, v);
                    ensure_eq!(wm.inverse_select(i), None, "WaveletMatrix.inverse_select.past-end", "inverse_select({})", i);
                }
                if i >= c {
                    ensure_eq!(wm.select(i, v), None, "WaveletMatrix.select.past-end", "select({}, {}) with {} occurrences", i, v, c);
                    ensure!(wm.select_iter(i, v).next().is_none(), "WaveletMatrix.select_iter.past-end", "select_iter({}, {})", i, v);
                }
            }
        }
    }
    if n <= 2000 {
        let core = WMCore::from(vals.clone());
        c04::check_core(&core, &vm, &case)?;
    }
    Ok(())
}

fn run_ctor(widths: &[u64], n: usize, m: usize, starts: &[(u64, u64)], rep: &mut Report) -> Result<(), Fail> {
    let dir = std::env::temp_dir();
    let mut all: Vec<usize> = vec![0, 1, 63, 64, 65, 66, 128, 1 << 32, 1 << 63, usize::MAX - 1, usize::MAX];
    all.extend(widths.iter().map(|&w| w as usize));
    for w in all {
        let valid = w >= 1 && w <= 64;
        ensure_eq!(IntVector::new(w).is_ok(), valid, "IntVector.new", "IntVector::new({})", w);
        ensure_eq!(IntVector::with_len(3, w, 5).is_ok(), valid, "IntVector.with_len", "IntVector::with_len(3, {}, 5)", w);
        ensure_eq!(IntVector::with_capacity(3, w).is_ok(), valid, "IntVector.with_capacity", "IntVector::with_capacity(3, {})", w);
        let path = dir.join(format!("c09-{}-{:016x}-{:?}", std::process::id(), hash_of(&(w, n, m)), std::thread::current().id()).replace(['(', ')'], ""));
        let r1 = IntVectorWriter::new(&path, w).is_ok();
        let r2 = IntVectorWriter::with_buf_len(&path, w, 16).is_ok();
        let _ = std::fs::remove_file(&path);
        ensure_eq!((r1, r2), (valid, valid), "IntVectorWriter.new", "IntVectorWriter::new / with_buf_len with width {}", w);
    }
    rep.class("ctor:widths");
    // SparseBuilder::new(n, m): Err iff m > n (n bounded for allocation; m small)
    let n_small = n % 5000;
    let m_small = m % 6000;
    ensure_eq!(SparseBuilder::new(n_small, m_small).is_ok(), m_small <= n_small, "SparseBuilder.new", "SparseBuilder::new({}, {})", n_small, m_small);
    ensure!(SparseBuilder::new(0, 1).is_err() && SparseBuilder::new(5, usize::MAX).is_err() && SparseBuilder::new(0, 0).is_ok(), "SparseBuilder.new", "SparseBuilder::new at the edges");
    // RLBuilder::try_set: Err iff start < len or start + len overflows
    let mut b = RLBuilder::new();
    let mut len = 0usize;
    for &(s, l) in starts {
        let (s, l) = (s as usize, l as usize);
        for (start, rl) in [(s, l), (len, l % 7), (len.saturating_sub(1), 1), (usize::MAX, 1), (usize::MAX - (l % 3), l % 5), (len, usize::MAX - len), (len, (usize::MAX - len).saturating_add(1))] {
            let overflow = usize::MAX - rl < start;
            let valid = start >= len && !overflow;
            let res = b.try_set(start, rl);
            if !(rl == 0 && start < len) {
                ensure_eq!(res.is_ok(), valid, "RLBuilder.try_set", "try_set({}, {}) with builder length {}", start, rl, len);
            }
            if res.is_ok() && rl > 0 {
                len = start + rl;
            }
            ensure_eq!(b.len(), len, "RLBuilder.len", "len() after try_set({}, {})", start, rl);
        }
    }
    rep.class("ctor:builders");
    Ok(())
}

impl Prop for C09 {
    type Case = Case;
    const ID: &'static str = "C09";
    const ISOLATE: bool = true; // in the release-arithmetic configuration a wrapped index can abort the process
    const RULE: &'static str = "structures: the three bitvector types built from the same generated bits (small and medium), sparse vectors in universes up to 2^64-1, run-length vectors with runs up to 2^63, wavelet matrices and cores (also with 56-bit values), constructors and builders; arguments from {0, 1, len-1, len, len+1, 2len, count-1, count, count+1, 2^32, 2^63-1, 2^63, 2^63+1, MAX/2, MAX-len, MAX-count, MAX-1, MAX} and generated values near MAX: rank(i>=len)=count_ones, select/select_zero(r>=count)=None with empty iterators of len 0, successor(v>=len) empty, predecessor(v>=len)=predecessor(len-1), the three types agree, nth/nth_back(k>=remaining) on fresh, partly consumed and positioned iterators returns None and exhausts the iterator, wavelet-matrix and core queries follow the C04 oracle for any (index, rank, value), IntVector/IntVectorWriter constructors accept exactly widths 1..=64, SparseBuilder::new(n, m>n) errors, RLBuilder::try_set errors iff start<len or start+len overflows; no call may panic (decided with overflow checks on, and with release arithmetic + std unsafe-precondition checks). Non-trivial: an argument >= len / >= count on a structure with at least one set bit / item; distinct by case.";

    fn cases(tier: Tier) -> u32 {
        tier.pick(24_000, 200_000)
    }

    fn strategy(tier: Tier, _cfg: &str) -> BoxedStrategy<Case> {
        let max_bits = tier.pick(100_000usize, 400_000usize);
        let extra = proptest::collection::vec(prop_oneof![any::<u64>(), (0u64..2000).prop_map(|d| u64::MAX - d)], 0..6);
        let small_bits = prop_oneof![
            3 => proptest::collection::vec(any::<bool>(), 0..150).prop_map(BitsSpec::Bools),
            2 => (proptest::collection::vec((0u32..70, 0u32..70), 0..20), 0u32..70).prop_map(|(r, t)| BitsSpec::Runs(r, t)),
            2 => bits_spec(max_bits),
        ];
        let three = (small_bits, proptest::collection::vec(any::<u16>(), 0..3), extra.clone(), any::<u8>()).prop_map(|(bits, consumed, extra, route)| Case::Three { bits, consumed, extra, route });
        let big_sparse = (prop_oneof![Just(usize::MAX), Just(usize::MAX - 1), Just(1usize << 63), (1usize << 33)..usize::MAX], proptest::collection::vec(any::<u64>(), 1..40), any::<bool>(), any::<bool>(), extra.clone())
            .prop_map(|(n, raw, first, last, extra)| Case::BigSparse { set: BigSet { n, raw, runs: vec![], edges: vec![], first, last }, extra });
        let cycle = proptest::collection::vec((0u8..7, 1u8..8), 1..4);
        let shape = (crate::props::c03::mag(), proptest::collection::vec((crate::props::c03::mag(), crate::props::c03::mag()), 0..16), prop_oneof![3 => Just(0u16), 1 => 0u16..400], cycle).prop_map(|(first_gap, runs, many, cycle)| Shape::Generic { first_gap, runs, many, cycle });
        let big_rl = (shape, proptest::option::of(crate::props::c03::mag()), extra.clone()).prop_map(|(shape, tail, extra)| Case::BigRl { shape, tail, extra });
        let wm = (proptest::collection::vec(prop_oneof![0u16..4, 0u16..64, any::<u16>()], 0..60), proptest::bool::weighted(0.25), extra).prop_map(|(vals, wide, extra)| Case::Wm { vals, wide, extra });
        let ctor = (proptest::collection::vec(any::<u64>(), 0..4), any::<usize>(), any::<usize>(), proptest::collection::vec((prop_oneof![0u64..50, any::<u64>()], prop_oneof![0u64..50, any::<u64>()]), 0..6)).prop_map(|(widths, n, m, starts)| Case::Ctor { widths, n, m, starts });
        prop_oneof![6 => three, 2 => big_sparse, 2 => big_rl, 3 => wm, 1 => ctor].boxed()
    }

    fn run(case: &Case) -> CaseResult {
        let mut rep = Report::new();
        let mut nontrivial = false;
        match case {
            Case::Three { bits, consumed, extra, route } => {
                let bits = bits.expand();
                run_three(&bits, consumed, extra, *route, &mut rep)?;
                nontrivial = bits.count_ones() > 0;
                rep.class("three-types");
                rep.class_if(bits.len == 0, "three-types:len=0");
            }
            Case::BigSparse { set, extra } => {
                let ones = set.positions();
                let model = SetModel::new(set.n, ones);
                let sv = build_sparse(set.n, &model.ones, 0);
                let mut plan = extreme_plan(&model, extra);
                plan.iter_limit = 1000;
                check_bitvec(&sv, &model, &plan, "SparseVector(big)")?;
                nontrivial = model.m() > 0;
                rep.class("big-sparse");
            }
            Case::BigRl { shape, tail, extra } => {
                let (runs, end) = shape.runs();
                let n = tail.map(|t| end.saturating_add(t.value())).unwrap_or(end);
                let model = RunModel::new(n, &runs);
                let rl = build_rl(if tail.is_some() { Some(n) } else { None }, &runs, &[], false, false);
                let plan = extreme_plan(&model, extra);
                check_bitvec(&rl, &model, &plan, "RLVector(big)")?;
                nontrivial = model.ones > 0;
                rep.class("big-rl");
                rep.class_if(n > 1usize << 63, "big-rl:len>2^63");
            }
            Case::Wm { vals, wide, extra } => {
                run_wm(vals, *wide, extra)?;
                nontrivial = !vals.is_empty();
                rep.class(if *wide { "wm-core:wide" } else { "wm" });
            }
            Case::Ctor { widths, n, m, starts } => {
                run_ctor(widths, *n, *m, starts, &mut rep)?;
                nontrivial = true;
            }
        }
        if nontrivial {
            rep.nontrivial(mix(hash_of(case), 9));
        }
        Ok(rep)
    }

    fn health(classes: &BTreeMap<String, u64>, _tier: Tier) -> Result<(), String> {
        for c in ["three-types", "three-types:len=0", "nth-beyond-remainder", "big-sparse", "big-rl", "big-rl:len>2^63", "wm", "wm-core:wide", "ctor:widths", "ctor:builders"] {
            if classes.get(c).copied().unwrap_or(0) == 0 {
                return Err(format!("no generated case reached class {}", c));
            }
        }
        Ok(())
    }

    fn assumptions() -> Vec<String> {
        vec![
            "get() is not called out of range (documented as 'may panic'); rank_zero only up to len".into(),
            "allocation-sizing arguments (lengths, capacities, universes of empty sparse builders) are kept small: an allocation failure aborts the process and is a resource outcome, not a verdict".into(),
        ]
    }
}

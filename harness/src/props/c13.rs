//! C13 — memory-mapped views expose exactly the serialized content at any offset.

use crate::anyval::{mappable_spec, Erased, ValSpec};
use crate::engine::{catch, CaseResult, Fail, Prop, Report, Tier};
use crate::props::c06::ser_bytes;
use crate::util::hash_of;
use crate::{ensure, ensure_eq};
use proptest::prelude::*;
use serde::{Deserialize, Serialize};
use simple_sds::serialize::{MappedOption, MappedSlice, MappingMode, MemoryMap, MemoryMapped, Serialize as Sds};
use std::io;
use std::collections::BTreeMap;

pub struct C13;

#[derive(Clone, Debug, Serialize, Deserialize, Hash)]
pub struct Case {
    pub vals: Vec<ValSpec>,
    pub mutable: bool,
    /// extra truncation points as fractions of the file
    pub cuts: Vec<u16>,
    /// an optional user-defined composite (a vector followed by an extension) appended to the file, then one more vector
    #[serde(default)]
    pub ext: Option<(Vec<u64>, Vec<u64>)>,
}

/// A user-defined composite whose first field is a vector: an older reader that only knows the first field
/// views `Option<Extended>` as `MappedOption<MappedSlice<u64>>` (and loads it as `Option<Vec<u64>>`); the
/// stored length of the optional structure still covers the extension.
#[derive(Clone, Debug, PartialEq, Eq)]
struct Extended {
    first: Vec<u64>,
    extension: Vec<u64>,
}

impl Sds for Extended {
    fn serialize_header<T: io::Write>(&self, _: &mut T) -> io::Result<()> {
        Ok(())
    }
    fn serialize_body<T: io::Write>(&self, writer: &mut T) -> io::Result<()> {
        Sds::serialize(&self.first, writer)?;
        Sds::serialize(&self.extension, writer)
    }
    fn load<T: io::Read>(reader: &mut T) -> io::Result<Self> {
        let first = Vec::<u64>::load(reader)?;
        let extension = Vec::<u64>::load(reader)?;
        Ok(Extended { first, extension })
    }
    fn size_in_elements(&self) -> usize {
        self.first.size_in_elements() + self.extension.size_in_elements()
    }
}

fn map_file(path: &std::path::Path, mutable: bool) -> std::io::Result<MemoryMap> {
    MemoryMap::new(path, if mutable { MappingMode::Mutable } else { MappingMode::ReadOnly })
}

/// Map structure `x` at `offset`; classify the result.
enum Mapped {
    Ok(usize, usize),
    Refused(String),
    Mismatch(String),
    Panic(String, String),
}

fn try_map(x: &dyn Erased, map: &MemoryMap, offset: usize) -> Mapped {
    match catch(|| x.map_check(map, offset)) {
        Ok(Some(Ok(Ok((o, l))))) => Mapped::Ok(o, l),
        Ok(Some(Ok(Err(m)))) => Mapped::Mismatch(m),
        Ok(Some(Err(e))) => Mapped::Refused(e.to_string()),
        Ok(None) => Mapped::Mismatch("type has no mapped counterpart (harness error)".into()),
        Err((loc, msg)) => Mapped::Panic(loc, msg),
    }
}

impl Prop for C13 {
    type Case = Case;
    const ID: &'static str = "C13";
    const RULE: &'static str = "files made of 1..6 concatenated serialized values of the mappable kinds (Vec<u64>, Vec<usize>, Vec<(u64,u64)>, Vec<u8>, String, RawVector and IntVector incl. ones left by operation histories, each plain / None / Some; empty ones included), both mapping modes: for each structure k at element offset o_k the mapped view must be created, expose exactly the loaded content (Index, Deref, Access, AccessRaw, len, count_ones, iter), report map_offset = o_k and map_offset + map_len = o_(k+1) (tiling; the last ends at map.len()); every offset in {len, len+1, 2*len, 2^63, MAX-1, MAX} must be refused with Err (no panic); for every element-granular truncation of the file the structure that is cut short must be refused while structures wholly before the cut still map and tile. In 30% of the files an optional user-defined composite (a Vec<u64> followed by an extension vector) and one more vector are appended: viewed as MappedOption<MappedSlice<u64>> (what Option::<Vec<u64>>::load reads) its map_offset + map_len must still be the offset of the next structure, i.e. the stored length + 1. Non-trivial: >= 2 structures with a non-empty one; distinct by file bytes.";

    fn cases(tier: Tier) -> u32 {
        tier.pick(3000, 40_000)
    }

    fn strategy(tier: Tier, _cfg: &str) -> BoxedStrategy<Case> {
        let max_bits = tier.pick(3000usize, 20_000usize);
        let ext = proptest::option::weighted(0.3, (proptest::collection::vec(any::<u64>(), 0..5), proptest::collection::vec(any::<u64>(), 0..5)));
        (proptest::collection::vec(mappable_spec(max_bits), 1..6), any::<bool>(), proptest::collection::vec(any::<u16>(), 0..8), ext).prop_map(|(vals, mutable, cuts, ext)| Case { vals, mutable, cuts, ext }).boxed()
    }

    fn run(case: &Case) -> CaseResult {
        let mut rep = Report::new();
        let values: Vec<Box<dyn Erased>> = case.vals.iter().map(|s| s.build()).collect();
        let mut file: Vec<u8> = Vec::new();
        let mut offsets: Vec<usize> = Vec::new();
        for x in &values {
            offsets.push(file.len() / 8);
            file.extend(ser_bytes(x.as_ref()));
        }
        // the optional composite with an extension, followed by one more structure
        let mut ext_at: Option<(usize, usize)> = None;
        if let Some((first, extension)) = &case.ext {
            let start = file.len() / 8;
            let x = Some(Extended { first: first.clone(), extension: extension.clone() });
            Sds::serialize(&x, &mut file).expect("serialize into a Vec");
            let next = file.len() / 8;
            Sds::serialize(&vec![0xE7u64; 2], &mut file).expect("serialize into a Vec");
            ext_at = Some((start, next));
        }
        let total = file.len() / 8;
        offsets.push(ext_at.map(|(s, _)| s).unwrap_or(total));
        let key = hash_of(&file);
        let path = std::env::temp_dir().join(format!("c13-{}-{:016x}-{:?}", std::process::id(), key, std::thread::current().id()).replace(['(', ')'], ""));
        let result = (|| -> Result<(), Fail> {
            std::fs::write(&path, &file).map_err(|e| Fail::new("infra", format!("cannot write scratch file: {}", e)))?;
            {
                let map = map_file(&path, case.mutable).map_err(|e| Fail::new("MemoryMap.new", format!("mapping a file of {} elements failed: {}", total, e)))?;
                ensure_eq!(map.len(), total, "MemoryMap.len", "map length in elements");
                for (k, x) in values.iter().enumerate() {
                    let name = x.type_name();
                    match try_map(x.as_ref(), &map, offsets[k]) {
                        Mapped::Ok(o, l) => {
                            ensure_eq!(o, offsets[k], "map_offset", "map_offset() of structure {} ({})", k, name);
                            ensure_eq!(o + l, offsets[k + 1], "map_len", "map_offset()+map_len() of structure {} ({}) must be the offset of the next structure", k, name);
                        }
                        Mapped::Refused(e) => return Err(Fail::new("map.refused", format!("structure {} ({}) at offset {} of a complete file was refused: {}", k, name, offsets[k], e))),
                        Mapped::Mismatch(m) => return Err(Fail::new("map.content", format!("structure {} ({}) at offset {}: {}", k, name, offsets[k], m))),
                        Mapped::Panic(loc, msg) => return Err(Fail::new(format!("map.panic@{}", loc), format!("mapping structure {} ({}) panicked at {}: {}", k, name, loc, msg))),
                    }
                    // offsets outside the file are refused
                    for bad in [total, total + 1, total.saturating_mul(2).max(total + 2), 1usize << 63, usize::MAX - 1, usize::MAX] {
                        match try_map(x.as_ref(), &map, bad) {
                            Mapped::Refused(_) => {}
                            Mapped::Ok(_, _) | Mapped::Mismatch(_) => return Err(Fail::new("map.accepts-bad-offset", format!("{}: a view was created at offset {} of a map of {} elements", name, bad, total))),
                            Mapped::Panic(loc, msg) => return Err(Fail::new(format!("map.bad-offset-panic@{}", loc), format!("{}: a view at offset {} of a map of {} elements panicked instead of returning Err ({}: {})", name, bad, total, loc, msg))),
                        }
                    }
                }
            }
            if let (Some((start, next)), Some((first, _))) = (ext_at, &case.ext) {
                let map = map_file(&path, case.mutable).map_err(|e| Fail::new("MemoryMap.new", format!("mapping a file of {} elements failed: {}", total, e)))?;
                let r = catch(|| -> io::Result<Result<(usize, usize), String>> {
                    let view = MappedOption::<MappedSlice<u64>>::new(&map, start)?;
                    if !view.is_some() {
                        return Ok(Err("the optional composite is reported absent".into()));
                    }
                    let inner: &[u64] = view.unwrap().as_ref();
                    if inner != first.as_slice() {
                        return Ok(Err("the view of the first field differs from what Option::<Vec<u64>>::load gives".into()));
                    }
                    let after = MappedSlice::<u64>::new(&map, view.map_offset() + view.map_len())?;
                    let a: &[u64] = after.as_ref();
                    if a != [0xE7u64; 2] {
                        return Ok(Err(format!("the structure found at map_offset()+map_len() = {} is not the one stored after the optional composite (at {})", view.map_offset() + view.map_len(), next)));
                    }
                    Ok(Ok((view.map_offset(), view.map_len())))
                });
                match r {
                    Ok(Ok(Ok((o, l)))) => {
                        ensure_eq!(o, start, "map_offset", "map_offset() of an optional composite viewed through its first field");
                        ensure_eq!(o + l, next, "map_len", "map_offset()+map_len() of an optional composite with an extension must be the offset of the next structure (stored length + 1)");
                    }
                    Ok(Ok(Err(m))) => return Err(Fail::new("map.content", format!("optional composite with an extension at offset {}: {}", start, m))),
                    Ok(Err(e)) => return Err(Fail::new("map.refused", format!("optional composite with an extension at offset {} was refused: {}", start, e))),
                    Err((loc, msg)) => return Err(Fail::new(format!("map.panic@{}", loc), format!("mapping an optional composite with an extension panicked at {}: {}", loc, msg))),
                }
                // the loading side of the same reading
                let mut cur = io::Cursor::new(&file[8 * start..]);
                let loaded = Option::<Vec<u64>>::load(&mut cur).map_err(|e| Fail::new("load", format!("Option::<Vec<u64>>::load on an optional composite: {}", e)))?;
                ensure!(loaded.as_deref() == Some(first.as_slice()), "load", "Option::<Vec<u64>>::load on an optional composite gives the first field");
                rep.class("optional-composite-with-extension");
            }
            // truncations
            let mut cuts: Vec<usize> = if total <= 160 { (1..total).collect() } else { Vec::new() };
            if total > 160 {
                for &o in &offsets {
                    for d in 0..4usize {
                        cuts.push(o.saturating_sub(d));
                        cuts.push(o + d);
                    }
                }
                for &c in &case.cuts {
                    cuts.push(crate::util::frac(c, total - 1));
                }
                cuts.retain(|&c| c >= 1 && c < total);
                cuts.sort_unstable();
                cuts.dedup();
            }
            for t in cuts {
                std::fs::write(&path, &file[..8 * t]).map_err(|e| Fail::new("infra", format!("cannot write scratch file: {}", e)))?;
                let map = map_file(&path, case.mutable).map_err(|e| Fail::new("MemoryMap.new", format!("mapping a file of {} elements failed: {}", t, e)))?;
                for (k, x) in values.iter().enumerate() {
                    let name = x.type_name();
                    let whole = offsets[k + 1] <= t;
                    match try_map(x.as_ref(), &map, offsets[k]) {
                        Mapped::Ok(o, l) => {
                            if !whole {
                                return Err(Fail::new("map.accepts-truncated", format!("structure {} ({}) spans elements {}..{} but a view was created on the file cut to {} elements", k, name, offsets[k], offsets[k + 1], t)));
                            }
                            ensure!(o == offsets[k] && o + l == offsets[k + 1], "map_len", "tiling of structure {} ({}) on a truncated file", k, name);
                        }
                        Mapped::Refused(e) => {
                            if whole {
                                return Err(Fail::new("map.refused", format!("structure {} ({}) lies wholly before the cut at {} but was refused: {}", k, name, t, e)));
                            }
                        }
                        Mapped::Mismatch(m) => {
                            return Err(Fail::new(if whole { "map.content" } else { "map.accepts-truncated" }, format!("structure {} ({}) on the file cut to {} elements: {}", k, name, t, m)));
                        }
                        Mapped::Panic(loc, msg) => return Err(Fail::new(format!("map.truncated-panic@{}", loc), format!("mapping structure {} ({}) on the file cut to {} elements panicked at {}: {}", k, name, t, loc, msg))),
                    }
                }
                rep.evals += 1;
            }
            Ok(())
        })();
        let _ = std::fs::remove_file(&path);
        result?;
        for s in &case.vals {
            rep.class(&s.type_tag());
        }
        rep.class(&format!("structures:{}", values.len()));
        rep.class(if case.mutable { "mode:mutable" } else { "mode:read-only" });
        if let Some(last) = case.vals.last() {
            rep.class_if(last.is_trivial(), "empty-structure-at-end-of-file");
        }
        if values.len() >= 2 && case.vals.iter().any(|s| !s.is_trivial()) {
            rep.nontrivial(key);
        }
        Ok(rep)
    }

    fn health(classes: &BTreeMap<String, u64>, _tier: Tier) -> Result<(), String> {
        for c in ["RawVector", "IntVector", "RawVector(history)", "IntVector(history)", "Vec<u8>", "String", "Vec<pair>", "Some:RawVector", "None:IntVector", "Some:String", "mode:mutable", "mode:read-only", "empty-structure-at-end-of-file", "structures:5", "optional-composite-with-extension"] {
            if classes.get(c).copied().unwrap_or(0) == 0 {
                return Err(format!("no generated case reached class {}", c));
            }
        }
        Ok(())
    }

    fn assumptions() -> Vec<String> {
        vec![
            "views are requested only at structure starts or outside the file: a mid-structure offset is foreign data for that type (documented as undefined)".into(),
            "files above 160 elements are truncated around every structure boundary (+-3 elements) and at generated points instead of at every element".into(),
        ]
    }
}

//! C02 — Elias-Fano sparse bitvector answers every query exactly (set semantics).

use crate::engine::{CaseResult, Prop, Report, Tier};
use crate::gen::{bits_spec, BitsSpec};
use crate::model::{check_bitvec, runs_of, Bits, Model, Plan, SetModel};
use crate::util::{bit_len, hash_of};
use crate::{ensure, ensure_eq};
use proptest::prelude::*;
use serde::{Deserialize, Serialize};
use simple_sds::bit_vector::BitVector;
use simple_sds::rl_vector::{RLBuilder, RLVector};
use simple_sds::sparse_vector::{SparseBuilder, SparseVector};
use std::collections::BTreeMap;
use std::convert::TryFrom;

pub struct C02;

/// A set of positions in a universe that need not be materialisable.
#[derive(Clone, Debug, Serialize, Deserialize, Hash)]
pub struct BigSet {
    pub n: usize,
    /// positions as 64-bit fractions of the universe
    pub raw: Vec<u64>,
    /// runs of consecutive positions (start fraction, length)
    pub runs: Vec<(u64, u32)>,
    /// positions k * 2^shift (minus one if the flag is set): bucket edges for every possible low width
    pub edges: Vec<(u8, u64, bool)>,
    pub first: bool,
    pub last: bool,
}

fn scale(raw: u64, n: usize) -> usize {
    ((raw as u128 * n as u128) >> 64) as usize
}

impl BigSet {
    pub fn positions(&self) -> Vec<usize> {
        let n = self.n;
        let mut out: Vec<usize> = Vec::new();
        if n == 0 {
            return out;
        }
        for &r in &self.raw {
            out.push(scale(r, n));
        }
        for &(s, l) in &self.runs {
            let start = scale(s, n);
            let end = start.saturating_add(l as usize).min(n);
            out.extend(start..end);
        }
        for &(shift, k, minus) in &self.edges {
            let units = n >> shift.min(63);
            if units == 0 {
                continue;
            }
            let p = (scale(k, units).max(1)) << shift.min(63);
            let p = if minus { p - 1 } else { p };
            if p < n {
                out.push(p);
            }
        }
        if self.first {
            out.push(0);
        }
        if self.last {
            out.push(n - 1);
        }
        out.sort_unstable();
        out.dedup();
        out
    }
}

#[derive(Clone, Debug, Serialize, Deserialize, Hash)]
pub enum SetSpec {
    Bits(BitsSpec),
    Big(BigSet),
}

#[derive(Clone, Debug, Serialize, Deserialize, Hash)]
pub struct Case {
    pub set: SetSpec,
    pub route: u8,
    pub extra: Vec<u64>,
}

pub const NUM_ROUTES: u8 = 8;

pub fn rl_from_positions(n: usize, ones: &[usize]) -> RLVector {
    let mut b = RLBuilder::new();
    for (s, l) in runs_of(ones) {
        b.try_set(s, l).expect("RLBuilder::try_set");
    }
    b.set_len(n);
    RLVector::from(b)
}

pub fn plain_from_positions(n: usize, ones: &[usize]) -> BitVector {
    BitVector::from(crate::props::c01::raw_by_set_bit(&Bits::from_positions(n, ones)))
}

/// Build a sparse vector from (n, strictly increasing positions) by one of the public routes.
/// Routes that need a materialised plain bitvector fall back to the builder when n is too large.
pub fn build_sparse(n: usize, ones: &[usize], route: u8) -> SparseVector {
    let materialisable = n <= 4_000_000;
    match route % NUM_ROUTES {
        1 => {
            let mut b = SparseBuilder::new(n, ones.len()).expect("SparseBuilder::new");
            for &p in ones {
                b.try_set(p).expect("SparseBuilder::try_set");
            }
            SparseVector::try_from(b).expect("SparseVector::try_from")
        }
        2 => {
            let mut b = SparseBuilder::new(n, ones.len()).expect("SparseBuilder::new");
            b.extend(ones.iter().copied());
            SparseVector::try_from(b).expect("SparseVector::try_from")
        }
        3 if (ones.is_empty() && n == 0) || (!ones.is_empty() && ones[ones.len() - 1] == n - 1) => SparseVector::try_from_iter(ones.iter().copied()).expect("the library refused a valid construction: SparseVector::try_from_iter on a strictly increasing (or empty) sequence"),
        4 if materialisable => SparseVector::copy_bit_vec(&plain_from_positions(n, ones)),
        5 if materialisable => SparseVector::from(plain_from_positions(n, ones)),
        6 => SparseVector::from(rl_from_positions(n, ones)),
        7 => SparseVector::copy_bit_vec(&rl_from_positions(n, ones)),
        _ => {
            let mut b = SparseBuilder::new(n, ones.len()).expect("SparseBuilder::new");
            for &p in ones {
                b.set(p);
            }
            SparseVector::try_from(b).expect("SparseVector::try_from")
        }
    }
}

/// The low width the documented rule w ~ log2(n) - log2(m) would pick; used only to choose query arguments and labels.
pub fn width_guess(n: usize, m: usize) -> usize {
    if m == 0 || m > n {
        return 1;
    }
    let ideal = ((n as f64) * std::f64::consts::LN_2 / (m as f64)).log2();
    ideal.max(1.0).round() as usize
}

pub fn sparse_plan<M: Model>(model: &M, extra: &[u64], full_limit: usize) -> Plan {
    let n = model.n();
    let m = model.m();
    if n <= full_limit {
        return Plan::all(model);
    }
    let mut idx = Vec::new();
    let mut ranks = Vec::new();
    let w = width_guess(n, m);
    // bucket edges around sampled ones for the plausible widths
    let step = (m / 64).max(1);
    let mut r = 0;
    while r < m {
        let p = model.select(r).unwrap();
        for ww in w.saturating_sub(1).max(1)..=(w + 1).min(63) {
            let b = (p >> ww) << ww;
            idx.push(b);
            idx.push(b.saturating_sub(1));
            idx.push(b.saturating_add(1usize << ww));
            idx.push(b.saturating_add((1usize << ww) - 1));
        }
        r += step;
    }
    for (k, &e) in extra.iter().enumerate() {
        if k % 2 == 0 {
            idx.push(scale(e, n));
        } else {
            ranks.push(scale(e, n.min(m.saturating_mul(2).max(16))));
        }
    }
    // run edges exercise the select_zero binary search
    Plan::sampled(model, 400, &idx, &ranks, 400_000)
}

impl Prop for C02 {
    type Case = Case;
    const ID: &'static str = "C02";
    const RULE: &'static str = "(n, strictly increasing positions): materialised bit sequences by regime, and sets in universes up to 2^64-1 directed at every low width 1..63 (n ~ m*2^w/ln2), with positions at 0, n-1, bucket edges k*2^s(-1), long runs and dense clusters (>= 10^5 ones, long select superblocks in the high bitvector); built by one of 8 public routes (builder set/try_set/extend, try_from_iter, conversions from plain and run-length vectors), all routes compared for equality; every query compared with a sorted-set model (all arguments when n <= 3000, else ends/extremes/neighbourhoods of 400 ones/bucket edges/generated). All subsets of universes n <= 10 (13 thorough) enumerated. Non-trivial: 1 <= m < n; distinct by (n, positions).";

    fn cases(tier: Tier) -> u32 {
        tier.pick(6000, 36_000)
    }

    fn strategy(tier: Tier, _cfg: &str) -> BoxedStrategy<Case> {
        let max_bits = tier.pick(100_000usize, 1_000_000usize);
        // universe directed at a low width
        let n_for_width = (1u32..=63, prop_oneof![1usize..=3, 1usize..=300], 0u32..1000).prop_map(|(w, m, jitter)| {
            let ideal = (m as f64) * (2.0f64).powi(w as i32) / std::f64::consts::LN_2 * (0.75 + jitter as f64 / 2000.0);
            let n = if ideal >= 1.8e19 { usize::MAX } else { ideal as usize };
            (n.max(m), m)
        });
        let big_n = prop_oneof![
            4 => n_for_width,
            1 => (prop_oneof![Just(usize::MAX), Just(usize::MAX - 1), Just(1usize << 63), Just((1usize << 63) + 1), Just((1usize << 63) - 1), (1usize << 62)..usize::MAX], 1usize..40),
            1 => ((0u32..64).prop_map(|k| 1usize << k), 0usize..200),
            1 => (1usize..100_000_000, 0usize..2000),
        ];
        let cluster_max = tier.pick(320_000u32, 600_000u32);
        let big = (big_n, proptest::collection::vec(any::<u64>(), 0..8), any::<bool>(), any::<bool>(), proptest::collection::vec((0u8..64, any::<u64>(), any::<bool>()), 0..6), proptest::collection::vec(any::<u64>(), 0..300), prop_oneof![40 => 0u32..70, 6 => 70u32..5000, 3 => 90_000u32..cluster_max])
            .prop_map(|((n, m), run_starts, first, last, edges, raw, run_len)| {
                let mut raw = raw;
                raw.truncate(m.max(1));
                let runs: Vec<(u64, u32)> = run_starts.into_iter().map(|s| (s, run_len)).collect();
                // keep the bucket array allocatable: an empty set spends n/2 bits on buckets (w = 1),
                // while any non-empty set needs only about 2 buckets per position
                let mut set = BigSet { n, raw, runs, edges, first, last };
                if set.n > (1usize << 27) && set.positions().is_empty() {
                    set.n = 1usize << 27;
                }
                return SetSpec::Big(set);
                #[allow(unreachable_code)]
                SetSpec::Big(BigSet { n, raw, runs, edges, first, last })
            });
        // exactly one or two values in a universe within a factor 1.5 of 2^64: the low width is at its maximum (63)
        let lone = (prop_oneof![Just(usize::MAX), (12usize << 60)..usize::MAX], proptest::collection::vec(any::<u64>(), 1..3))
            .prop_map(|(n, raw)| SetSpec::Big(BigSet { n, raw, runs: vec![], edges: vec![], first: false, last: false }));
        let set = prop_oneof![
            10 => bits_spec(max_bits).prop_map(SetSpec::Bits),
            14 => big,
            1 => lone,
        ];
        (set, 0u8..NUM_ROUTES, proptest::collection::vec(any::<u64>(), 0..48)).prop_map(|(set, route, extra)| Case { set, route, extra }).boxed()
    }

    fn exhaustive(tier: Tier, shard: usize, nshards: usize, emit: &mut dyn FnMut(Case) -> bool) {
        let max = tier.pick(10usize, 13usize);
        let mut idx = 0usize;
        for n in 0..=max {
            for v in 0u32..(1u32 << n) {
                idx += 1;
                if (idx - 1) % nshards != shard {
                    continue;
                }
                let bools: Vec<bool> = (0..n).map(|i| (v >> i) & 1 == 1).collect();
                if !emit(Case { set: SetSpec::Bits(BitsSpec::Bools(bools)), route: (idx % NUM_ROUTES as usize) as u8, extra: vec![] }) {
                    return;
                }
            }
        }
    }

    fn exhaustive_note(tier: Tier) -> Option<String> {
        Some(format!("every subset of every universe n <= {} x every query argument", tier.pick(10, 13)))
    }

    fn run(case: &Case) -> CaseResult {
        let (n, ones) = match &case.set {
            SetSpec::Bits(b) => {
                let bits = b.expand();
                (bits.len, bits.positions())
            }
            SetSpec::Big(b) => (b.n, b.positions()),
        };
        let m = ones.len();
        let mut rep = Report::new();
        let key = hash_of(&(n, &ones));
        let model = SetModel::new(n, ones);

        let mut sv = build_sparse(n, &model.ones, case.route);
        crate::model::enable_builtin_supports(&mut sv, case.route / 8, "SparseVector")?;
        rep.class(&format!("route:{}", case.route % NUM_ROUTES));
        // another route must give an equal vector
        let other_route = if case.route % NUM_ROUTES == 0 { 6 } else { 0 };
        let other = build_sparse(n, &model.ones, other_route);
        ensure!(other == sv, "SparseVector.routes-equal", "SparseVector built by route {} != route {} (n={}, m={})", case.route % NUM_ROUTES, other_route, n, m);
        if n <= 3000 {
            for r in 0..NUM_ROUTES {
                let o = build_sparse(n, &model.ones, r);
                ensure!(o == sv, "SparseVector.routes-equal", "SparseVector built by route {} != route {} (n={}, m={})", r, case.route % NUM_ROUTES, n, m);
            }
        }
        ensure_eq!(sv.is_multiset(), false, "SparseVector.is_multiset", "is_multiset() on a set");

        let plan = sparse_plan(&model, &case.extra, 3000);
        check_bitvec(&sv, &model, &plan, "SparseVector")?;

        let w = width_guess(n, m);
        rep.class(&format!("w~{}", w));
        rep.class_if(m == 0, "m=0");
        rep.class_if(m == n && n > 0, "m=n");
        rep.class_if(n >= 1usize << 63, "n>=2^63");
        rep.class_if(n >= 1usize << 32, "n>=2^32");
        let nruns = runs_of(&model.ones).len();
        rep.class_if(nruns > 16, ">16-one-runs");
        rep.class_if(m >= 90_000, "m>=90000(long high superblocks possible)");
        rep.class_if(m >= 250_000, "m>=250000(several long high superblocks possible)");
        rep.class_if(n <= 3000, "plan:all-arguments");
        rep.class(&format!("high-len-bits~{}", bit_len(((n >> w.min(63)) + m) as u64)));
        if m >= 1 && m < n {
            rep.nontrivial(key);
        }
        Ok(rep)
    }

    fn health(classes: &BTreeMap<String, u64>, tier: Tier) -> Result<(), String> {
        let widths = classes.keys().filter(|k| k.starts_with("w~")).count();
        let need = tier.pick(40, 60);
        if widths < need {
            return Err(format!("only {} distinct low widths reached (need {})", widths, need));
        }
        for c in ["m=0", "m=n", "n>=2^63", ">16-one-runs", "m>=90000(long high superblocks possible)", "m>=250000(several long high superblocks possible)"] {
            if classes.get(c).copied().unwrap_or(0) == 0 {
                return Err(format!("no generated case reached class {}", c));
            }
        }
        Ok(())
    }

    fn assumptions() -> Vec<String> {
        vec![
            "get is asked only below n and rank_zero only up to n".into(),
            "the bucket array (n / 2^w bits) is kept below 2^27 bits: empty or nearly empty sets are explored only for universes the structure can be allocated for (the property's own memory bound)".into(),
            "the low width chosen by the library is not asserted (the format only requires w >= 1); it is only used to pick bucket-edge arguments".into(),
            "universes above 3000 are queried at ends, extremes, neighbourhoods of up to 400 evenly spread set bits, bucket edges and generated arguments".into(),
        ]
    }
}

//! C04 — wavelet matrix reproduces the vector and answers rank/select-type queries; core mapping.

use crate::engine::{CaseResult, Fail, Prop, Report, Tier};
use crate::util::{bit_len, hash_of, SplitMix};
use crate::{ensure, ensure_eq};
use proptest::prelude::*;
use serde::{Deserialize, Serialize};
use simple_sds::ops::{Access, Vector, VectorIndex};
use simple_sds::wavelet_matrix::wm_core::WMCore;
use simple_sds::wavelet_matrix::WaveletMatrix;
use std::collections::{BTreeMap, HashMap};

pub struct C04;

#[derive(Clone, Debug, Serialize, Deserialize, Hash, PartialEq, Eq)]
pub enum Dist {
    Uniform,
    /// one symbol only (given as a fraction of the alphabet)
    Single(u16),
    /// two symbols that differ in exactly one bit
    TwoSymbols(u16, u8),
    /// skewed: symbol = alphabet * u^4
    Skewed,
    /// only values of the form 2^k and 2^k - 1
    Pow2,
    /// only values whose bits are a subset of the mask (missing symbols)
    Masked(u64),
    /// small values plus a single large outlier (the top levels have a single set bit)
    Outlier,
    /// small values, and with probability 1/(2 + rarity) a value with a high bit set: the top levels are sparse with
    /// irregular spacing, so long vectors have several long select superblocks on those levels
    Rare(u8),
}

#[derive(Clone, Debug, Serialize, Deserialize, Hash, PartialEq, Eq)]
pub enum Vals {
    Explicit(Vec<u64>),
    /// (len, width 1..=64, distribution, seed): values are below 2^width
    Recipe(usize, u8, Dist, u64),
}

impl Vals {
    pub fn expand(&self) -> Vec<u64> {
        match self {
            Vals::Explicit(v) => v.clone(),
            Vals::Recipe(len, width, dist, seed) => {
                let width = (*width as u32).clamp(1, 64);
                let limit: u128 = 1u128 << width; // exclusive
                let mut rng = SplitMix::new(*seed);
                let pick = |f: u64| -> u64 { ((f as u128 * limit) >> 64) as u64 };
                let mut out = Vec::with_capacity(*len);
                for i in 0..*len {
                    let v = match dist {
                        Dist::Uniform => pick(rng.next()),
                        Dist::Single(f) => pick((*f as u64) << 48),
                        Dist::TwoSymbols(f, bit) => {
                            let a = pick((*f as u64) << 48);
                            if rng.next() & 1 == 0 {
                                a
                            } else {
                                a ^ (1u64 << (*bit as u32 % width))
                            }
                        }
                        Dist::Skewed => {
                            let u = (rng.next() >> 11) as f64 / (1u64 << 53) as f64;
                            let x = u * u * u * u;
                            ((x * (limit as f64)) as u128).min(limit - 1) as u64
                        }
                        Dist::Pow2 => {
                            let k = rng.below(width as u64) as u32;
                            if rng.next() & 1 == 0 {
                                1u64 << k
                            } else {
                                (1u64 << k) - 1
                            }
                        }
                        Dist::Masked(m) => pick(rng.next()) & *m,
                        Dist::Rare(r) => {
                            if rng.below(2 + *r as u64) == 0 {
                                ((limit >> 1) as u64) | rng.below(4)
                            } else {
                                rng.below(4)
                            }
                        }
                        Dist::Outlier => {
                            if i == (*seed as usize) % (*len).max(1) {
                                (limit - 1) as u64
                            } else {
                                rng.below(4)
                            }
                        }
                    };
                    out.push(v);
                }
                out
            }
        }
    }
}

#[derive(Clone, Debug, Serialize, Deserialize, Hash)]
pub struct Case {
    pub vals: Vals,
    /// source item type: 0 u8, 1 u16, 2 u32, 3 u64, 4 usize (falls back to a wider type when values do not fit)
    pub src: u8,
    pub extra_vals: Vec<u64>,
    pub extra_idx: Vec<u16>,
}

pub fn wm_from(vals: &[u64], src: u8) -> (WaveletMatrix, &'static str) {
    let max = vals.iter().copied().max().unwrap_or(0);
    let mut src = src % 5;
    if src == 0 && max > u8::MAX as u64 {
        src = 1;
    }
    if src == 1 && max > u16::MAX as u64 {
        src = 2;
    }
    if src == 2 && max > u32::MAX as u64 {
        src = 3;
    }
    match src {
        0 => (WaveletMatrix::from(vals.iter().map(|&v| v as u8).collect::<Vec<u8>>()), "u8"),
        1 => (WaveletMatrix::from(vals.iter().map(|&v| v as u16).collect::<Vec<u16>>()), "u16"),
        2 => (WaveletMatrix::from(vals.iter().map(|&v| v as u32).collect::<Vec<u32>>()), "u32"),
        3 => (WaveletMatrix::from(vals.to_vec()), "u64"),
        _ => (WaveletMatrix::from(vals.iter().map(|&v| v as usize).collect::<Vec<usize>>()), "usize"),
    }
}

pub fn core_from(vals: &[u64], src: u8) -> WMCore {
    let max = vals.iter().copied().max().unwrap_or(0);
    let mut src = src % 5;
    if src == 0 && max > u8::MAX as u64 {
        src = 1;
    }
    if src == 1 && max > u16::MAX as u64 {
        src = 2;
    }
    if src == 2 && max > u32::MAX as u64 {
        src = 3;
    }
    match src {
        0 => WMCore::from(vals.iter().map(|&v| v as u8).collect::<Vec<u8>>()),
        1 => WMCore::from(vals.iter().map(|&v| v as u16).collect::<Vec<u16>>()),
        2 => WMCore::from(vals.iter().map(|&v| v as u32).collect::<Vec<u32>>()),
        3 => WMCore::from(vals.to_vec()),
        _ => WMCore::from(vals.iter().map(|&v| v as usize).collect::<Vec<usize>>()),
    }
}

/// Naive reference for a vector of integers.
pub struct VecModel {
    pub vals: Vec<u64>,
    pub width: usize,
    pub pos: HashMap<u64, Vec<usize>>,
    /// indices sorted stably by the reversed `width`-bit representation of their value
    pub sorted: Vec<usize>,
    /// position of each index in `sorted`
    pub place: Vec<usize>,
}

pub fn rev(v: u64, width: usize) -> u64 {
    let mut out = 0u64;
    for k in 0..width {
        if (v >> k) & 1 == 1 {
            out |= 1u64 << (width - 1 - k);
        }
    }
    out
}

impl VecModel {
    pub fn new(vals: Vec<u64>) -> VecModel {
        let max = vals.iter().copied().max().unwrap_or(0);
        let width = bit_len(max);
        let mut pos: HashMap<u64, Vec<usize>> = HashMap::new();
        for (i, &v) in vals.iter().enumerate() {
            pos.entry(v).or_default().push(i);
        }
        let mut sorted: Vec<usize> = (0..vals.len()).collect();
        sorted.sort_by_key(|&i| rev(vals[i], width)); // stable
        let mut place = vec![0usize; vals.len()];
        for (p, &i) in sorted.iter().enumerate() {
            place[i] = p;
        }
        VecModel { vals, width, pos, sorted, place }
    }
    pub fn occ(&self, v: u64) -> &[usize] {
        self.pos.get(&v).map(|x| x.as_slice()).unwrap_or(&[])
    }
    pub fn rank(&self, i: usize, v: u64) -> usize {
        self.occ(v).partition_point(|&p| p < i)
    }
    pub fn mask(&self) -> u64 {
        if self.width == 64 {
            !0
        } else {
            (1u64 << self.width) - 1
        }
    }
    /// number of items whose reversed representation sorts strictly before that of v (v already reduced to `width` bits)
    pub fn start_of(&self, v: u64) -> usize {
        let key = rev(v, self.width);
        self.sorted.partition_point(|&i| rev(self.vals[i], self.width) < key)
    }
}

fn value_args(m: &VecModel, extra: &[u64], limit: usize) -> Vec<u64> {
    let max = m.vals.iter().copied().max().unwrap_or(0);
    let mut out: Vec<u64> = Vec::new();
    if (max as usize) < limit {
        out.extend(0..=max);
    } else {
        let mut present: Vec<u64> = m.pos.keys().copied().collect();
        present.sort_unstable();
        let step = (present.len() / limit).max(1);
        out.extend(present.iter().step_by(step).copied());
        for &v in present.iter().step_by(step).take(16) {
            out.push(v.wrapping_add(1));
            out.push(v.wrapping_sub(1));
        }
        out.push(max);
        out.push(0);
    }
    let two_w = if m.width == 64 { 0 } else { 1u64 << m.width };
    out.push(max.wrapping_add(1));
    out.push(two_w);
    out.push(two_w.wrapping_add(max));
    out.push(two_w.wrapping_add(m.vals.first().copied().unwrap_or(0)));
    out.push(two_w.wrapping_sub(1));
    out.push(u64::MAX);
    out.push(u64::MAX - 1);
    out.push(1u64 << 63);
    for &e in extra {
        out.push(e);
        out.push(e & m.mask());
        if max < u64::MAX {
            out.push(e % (max + 1));
        }
    }
    out.sort_unstable();
    out.dedup();
    out
}

fn index_args(m: &VecModel, v: u64, extra: &[u16], full: bool) -> Vec<usize> {
    let n = m.vals.len();
    let mut out: Vec<usize> = Vec::new();
    if full {
        out.extend(0..=n + 1);
    } else {
        out.extend([0, 1, 2, n / 2, n.saturating_sub(2), n.saturating_sub(1), n, n + 1]);
        let occ = m.occ(v);
        let step = (occ.len() / 6).max(1);
        for &p in occ.iter().step_by(step) {
            out.push(p.saturating_sub(1));
            out.push(p);
            out.push(p + 1);
        }
        if let Some(&p) = occ.last() {
            out.push(p);
            out.push(p + 1);
        }
        for &e in extra {
            out.push(crate::util::frac(e, n + 1));
        }
    }
    out.extend([2 * n, 1usize << 63, usize::MAX - 1, usize::MAX]);
    out.sort_unstable();
    out.dedup();
    out
}

pub fn check_wm(wm: &WaveletMatrix, m: &VecModel, case: &Case, rep: &mut Report) -> Result<(), Fail> {
    let n = m.vals.len();
    ensure_eq!(wm.len(), n, "WaveletMatrix.len", "len()");
    ensure_eq!(wm.is_empty(), n == 0, "WaveletMatrix.is_empty", "is_empty()");
    ensure_eq!(wm.width(), m.width, "WaveletMatrix.width", "width() for max value {:?}", m.vals.iter().max());
    let full = n <= 300;
    // access
    if full || n <= 5000 {
        for i in 0..n {
            ensure_eq!(wm.get(i), m.vals[i], "WaveletMatrix.get", "get({})", i);
        }
        let collected: Vec<u64> = wm.iter().collect();
        ensure!(collected == m.vals, "WaveletMatrix.iter", "iter() does not reproduce the vector");
        ensure_eq!(wm.iter().len(), n, "WaveletMatrix.iter", "iter().len()");
    } else {
        for &e in &case.extra_idx {
            let i = crate::util::frac(e, n - 1);
            ensure_eq!(wm.get(i), m.vals[i], "WaveletMatrix.get", "get({})", i);
        }
        for i in [0, 1, n / 2, n - 2, n - 1] {
            ensure_eq!(wm.get(i), m.vals[i], "WaveletMatrix.get", "get({})", i);
        }
    }
    for i in [n, n + 1, usize::MAX] {
        ensure_eq!(wm.get_or(i, 12345), 12345, "WaveletMatrix.get_or", "get_or({}) past the end", i);
        ensure_eq!(wm.inverse_select(i), None, "WaveletMatrix.inverse_select", "inverse_select({}) past the end", i);
    }
    let idx_for_inverse: Vec<usize> = if full { (0..n).collect() } else { case.extra_idx.iter().map(|&e| crate::util::frac(e, n - 1)).chain([0, n - 1]).collect() };
    for i in idx_for_inverse {
        let v = m.vals[i];
        ensure_eq!(wm.inverse_select(i), Some((m.rank(i, v), v)), "WaveletMatrix.inverse_select", "inverse_select({})", i);
    }

    let values = value_args(m, &case.extra_vals, if full { 70 } else { 24 });
    for &v in &values {
        let occ = m.occ(v);
        let c = occ.len();
        ensure_eq!(wm.contains(v), c > 0, "WaveletMatrix.contains", "contains({})", v);
        for i in index_args(m, v, &case.extra_idx, full) {
            ensure_eq!(wm.rank(i, v), m.rank(i, v), "WaveletMatrix.rank", "rank({}, {})", i, v);
            // predecessor: last occurrence at or before i
            let k = occ.partition_point(|&p| p <= i);
            let want = if k == 0 { None } else { Some((k - 1, occ[k - 1])) };
            let mut it = wm.predecessor(i, v);
            ensure_eq!(it.next(), want, "WaveletMatrix.predecessor", "predecessor({}, {}).next()", i, v);
            if want.is_some() {
                ensure_eq!(it.next(), occ.get(k).map(|&p| (k, p)), "WaveletMatrix.predecessor", "predecessor({}, {}) second item", i, v);
            }
            let k = occ.partition_point(|&p| p < i);
            let want = occ.get(k).map(|&p| (k, p));
            let mut it = wm.successor(i, v);
            ensure_eq!(it.next(), want, "WaveletMatrix.successor", "successor({}, {}).next()", i, v);
            if want.is_some() {
                ensure_eq!(it.next(), occ.get(k + 1).map(|&p| (k + 1, p)), "WaveletMatrix.successor", "successor({}, {}) second item", i, v);
            }
        }
        let mut ranks: Vec<usize> = if c <= 300 { (0..=c + 1).collect() } else { vec![0, 1, c / 2, c - 1, c, c + 1] };
        ranks.extend([n, n + 1, 1usize << 63, usize::MAX - 1, usize::MAX]);
        for r in ranks {
            ensure_eq!(wm.select(r, v), occ.get(r).copied(), "WaveletMatrix.select", "select({}, {})", r, v);
            let mut it = wm.select_iter(r, v);
            ensure_eq!(it.next(), occ.get(r).map(|&p| (r, p)), "WaveletMatrix.select_iter", "select_iter({}, {}).next()", r, v);
            if r < c {
                ensure_eq!(it.next(), occ.get(r + 1).map(|&p| (r + 1, p)), "WaveletMatrix.select_iter", "select_iter({}, {}) second item", r, v);
            }
        }
        if c <= 5000 {
            let got: Vec<(usize, usize)> = wm.value_iter(v).collect();
            let want: Vec<(usize, usize)> = occ.iter().copied().enumerate().collect();
            ensure!(got == want, "WaveletMatrix.value_iter", "value_iter({}) yields {} items {:?}.., the vector has {} occurrences", v, got.len(), &got[..got.len().min(4)], c);
            let mut it = wm.value_iter(v);
            ensure_eq!(WaveletMatrix::value_of(&it), v, "WaveletMatrix.value_of", "value_of(value_iter({}))", v);
            for _ in 0..c {
                it.next();
            }
            ensure_eq!(it.next(), None, "WaveletMatrix.value_iter", "value_iter({}) after the last occurrence", v);
            ensure_eq!(it.next(), None, "WaveletMatrix.value_iter", "value_iter({}) fused", v);
        }
    }
    rep.class(if full { "wm:all-indexes" } else { "wm:sampled-indexes" });
    Ok(())
}

pub fn check_core(core: &WMCore, m: &VecModel, case: &Case) -> Result<(), Fail> {
    let n = m.vals.len();
    ensure_eq!(core.len(), n, "WMCore.len", "len()");
    ensure_eq!(core.width(), m.width, "WMCore.width", "width()");
    let full = n <= 300;
    let idx: Vec<usize> = if full { (0..n).collect() } else { case.extra_idx.iter().map(|&e| crate::util::frac(e, n - 1)).chain([0, 1, n / 2, n - 2, n - 1]).collect() };
    for &i in &idx {
        let v = m.vals[i];
        let p = m.place[i];
        ensure_eq!(core.map_down(i), Some((p, v)), "WMCore.map_down", "map_down({})", i);
        ensure_eq!(core.map_down_with(i, v), p, "WMCore.map_down_with", "map_down_with({}, {}) for the value at that position", i, v);
        ensure_eq!(core.map_up_with(p, v), Some(i), "WMCore.map_up_with", "map_up_with({}, {}) must invert map_down({})", p, v, i);
        // values are the lowest `width` bits: high garbage is ignored
        if m.width < 64 {
            let g = v | (1u64 << m.width) | (1u64 << 63);
            ensure_eq!(core.map_up_with(p, g), Some(i), "WMCore.map_up_with", "map_up_with({}, {:#x}) with bits above the width set", p, g);
        }
    }
    for i in [n, n + 1, 2 * n + 1, 1usize << 63, usize::MAX] {
        ensure_eq!(core.map_down(i), None, "WMCore.map_down", "map_down({}) past the end", i);
    }
    let values = value_args(m, &case.extra_vals, if full { 40 } else { 12 });
    for &v in &values {
        let vv = v & m.mask();
        let start = m.start_of(vv);
        let iargs = index_args(m, vv, &case.extra_idx, full);
        for &i in &iargs {
            let want = start + m.rank(i.min(n), vv);
            ensure_eq!(core.map_down_with(i, v), want, "WMCore.map_down_with", "map_down_with({}, {})", i, v);
        }
        if iargs.len() >= 2 {
            let (a, b) = (iargs[iargs.len() / 3], iargs[iargs.len() - 2]);
            let want = (start + m.rank(a.min(n), vv), start + m.rank(b.min(n), vv));
            ensure_eq!(core.map_down_with_two_positions(a, b, v), want, "WMCore.map_down_with_two_positions", "map_down_with_two_positions({}, {}, {})", a, b, v);
        }
        // map_up_with(p, v) = Some(i) iff the item at sorted position p has value v (mod 2^width)
        let mut ps: Vec<usize> = if full { (0..=n + 1).collect() } else { vec![0, 1, n / 2, n - 1, n, n + 1, start, start.saturating_sub(1), start + m.occ(vv).len(), (start + m.occ(vv).len()).saturating_sub(1)] };
        ps.extend([2 * n, 1usize << 63, usize::MAX - 1, usize::MAX]);
        for p in ps {
            let want = if p < n && m.vals[m.sorted[p]] == vv { Some(m.sorted[p]) } else { None };
            ensure_eq!(core.map_up_with(p, v), want, "WMCore.map_up_with", "map_up_with({}, {})", p, v);
        }
    }
    Ok(())
}

impl Prop for C04 {
    type Case = Case;
    const ID: &'static str = "C04";
    const RULE: &'static str = "vectors over alphabets of width 1..16 (wavelet matrix) and 1..64 (core): lengths 0, 1, 2^k, 2..600 (to 20000 thorough) plus rare 90k-150k vectors with a single outlier; distributions uniform / single symbol / two symbols differing in one bit / skewed / only 2^k and 2^k-1 / masked (missing symbols) / outlier; all five source item types (all must give equal matrices); every query compared with a naive Vec<u64> model for all indexes 0..=len+1 (len <= 300, else edges + occurrences + generated) x values (whole alphabet if small, else present values +-1, max+1, 2^width, 2^width+present, u64::MAX, generated); core map_down/map_down_with/map_up_with against the stable sort by reversed bits, values compared modulo 2^width. All vectors of length <= 5 over {0..3} and length <= 4 over {0..7} enumerated. Non-trivial: len >= 2 and >= 2 distinct symbols; distinct by vector.";

    fn cases(tier: Tier) -> u32 {
        tier.pick(8000, 60_000)
    }

    fn strategy(tier: Tier, _cfg: &str) -> BoxedStrategy<Case> {
        let max_len = tier.pick(600usize, 20_000usize);
        let dist = prop_oneof![
            4 => Just(Dist::Uniform),
            2 => any::<u16>().prop_map(Dist::Single),
            2 => (any::<u16>(), any::<u8>()).prop_map(|(a, b)| Dist::TwoSymbols(a, b)),
            2 => Just(Dist::Skewed),
            2 => Just(Dist::Pow2),
            2 => any::<u64>().prop_map(Dist::Masked),
            1 => Just(Dist::Outlier),
        ];
        let len = prop_oneof![
            2 => prop_oneof![Just(0usize), Just(1), Just(2), Just(3)],
            2 => (1u32..=9).prop_map(|k| 1usize << k),
            2 => (1u32..=9, 0usize..3).prop_map(|(k, d)| (1usize << k) + d - 1),
            6 => 0usize..=max_len,
        ];
        let wm_recipe = (len.clone(), 1u8..=16, dist.clone(), any::<u64>()).prop_map(|(l, w, d, s)| Vals::Recipe(l, w, d, s));
        let core_recipe = (len, 1u8..=64, dist, any::<u64>()).prop_map(|(l, w, d, s)| Vals::Recipe(l.min(300), w, d, s));
        let big = (prop_oneof![90_000usize..150_000, 150_000usize..420_000], 3u8..=12, any::<u64>(), prop_oneof![Just(Dist::Outlier), (20u8..120).prop_map(Dist::Rare), (20u8..120).prop_map(Dist::Rare)]).prop_map(|(l, w, s, d)| Vals::Recipe(l, w, d, s));
        let explicit = proptest::collection::vec(prop_oneof![0u64..4, 0u64..256, 0u64..65536], 0..60).prop_map(Vals::Explicit);
        let vals = prop_oneof![120 => wm_recipe, 40 => core_recipe, 40 => explicit, 3 => big];
        (vals, 0u8..5, proptest::collection::vec(any::<u64>(), 0..6), proptest::collection::vec(any::<u16>(), 0..12))
            .prop_map(|(vals, src, extra_vals, extra_idx)| Case { vals, src, extra_vals, extra_idx })
            .boxed()
    }

    fn exhaustive(_tier: Tier, shard: usize, nshards: usize, emit: &mut dyn FnMut(Case) -> bool) {
        let mut idx = 0usize;
        for (alpha, maxlen) in [(4u64, 5usize), (8u64, 4usize)] {
            for len in 0..=maxlen {
                let total = (alpha as usize).pow(len as u32);
                for code in 0..total {
                    idx += 1;
                    if (idx - 1) % nshards != shard {
                        continue;
                    }
                    let mut c = code;
                    let mut v = Vec::with_capacity(len);
                    for _ in 0..len {
                        v.push((c % alpha as usize) as u64);
                        c /= alpha as usize;
                    }
                    if !emit(Case { vals: Vals::Explicit(v), src: (idx % 5) as u8, extra_vals: vec![], extra_idx: vec![] }) {
                        return;
                    }
                }
            }
        }
    }

    fn exhaustive_note(_tier: Tier) -> Option<String> {
        Some("all vectors of length <= 5 over {0..3} and of length <= 4 over {0..7} x all (index, rank, value) arguments".into())
    }

    fn run(case: &Case) -> CaseResult {
        let vals = case.vals.expand();
        let mut rep = Report::new();
        let key = hash_of(&vals);
        let model = VecModel::new(vals);
        let n = model.vals.len();
        let max = model.vals.iter().copied().max().unwrap_or(0);
        let distinct = model.pos.len();

        // The wavelet matrix allocates max+1 counters: alphabets are limited to 2^16 (the property's range); wider values go to the core only.
        if max < (1u64 << 16) {
            let (wm, src_name) = wm_from(&model.vals, case.src);
            rep.class(&format!("src:{}", src_name));
            check_wm(&wm, &model, case, &mut rep)?;
            if n <= 2000 {
                for s in 0..5u8 {
                    let (other, other_name) = wm_from(&model.vals, s);
                    ensure!(other == wm, "WaveletMatrix.sources-equal", "WaveletMatrix built from {} != built from {}", other_name, src_name);
                }
            }
            rep.class("wm");
        } else {
            rep.class("core-only(width>16)");
        }
        if n <= 2000 {
            let core = core_from(&model.vals, case.src);
            check_core(&core, &model, case)?;
            let other = core_from(&model.vals, 3);
            ensure!(other == core, "WMCore.sources-equal", "WMCore built from source type {} != built from u64", case.src % 5);
            rep.class("core");
        }

        rep.class(&format!("width:{}", model.width));
        rep.class_if(n == 0, "len=0");
        rep.class_if(n == 1, "len=1");
        rep.class_if(n >= 2 && n.is_power_of_two(), "len=2^k");
        rep.class_if(n >= 2 && distinct == 1, "single-symbol");
        rep.class_if(distinct >= 2 && (distinct as u64) < max.saturating_add(1), "missing-symbols");
        rep.class_if(n >= 83_521, "len>=83521(long select superblocks possible)");
        rep.class_if(n >= 250_000 && matches!(case.vals, Vals::Recipe(_, _, Dist::Rare(_), _)), "len>=250000+rare-high-bit(several long superblocks)");
        if n >= 2 && distinct >= 2 {
            rep.nontrivial(key);
        }
        Ok(rep)
    }

    fn health(classes: &BTreeMap<String, u64>, tier: Tier) -> Result<(), String> {
        for w in 1..=16 {
            if classes.get(&format!("width:{}", w)).copied().unwrap_or(0) == 0 {
                return Err(format!("no generated case has width {}", w));
            }
        }
        for c in ["len=0", "len=1", "len=2^k", "single-symbol", "missing-symbols", "src:u8", "src:u16", "src:u32", "src:u64", "src:usize", "core", "core-only(width>16)"] {
            if classes.get(c).copied().unwrap_or(0) == 0 {
                return Err(format!("no generated case reached class {}", c));
            }
        }
        let _ = tier;
        for c in ["len>=83521(long select superblocks possible)", "len>=250000+rare-high-bit(several long superblocks)"] {
            if classes.get(c).copied().unwrap_or(0) == 0 {
                return Err(format!("no generated case reached class {}", c));
            }
        }
        Ok(())
    }

    fn sanitize(case: &mut Case) {
        // byte-decoded (fuzzer) cases stay small
        match &mut case.vals {
            Vals::Explicit(v) => v.truncate(150),
            Vals::Recipe(len, width, _, _) => {
                *len %= 300;
                *width = (*width % 64) + 1;
            }
        }
        case.extra_vals.truncate(16);
        case.extra_idx.truncate(16);
    }

    fn assumptions() -> Vec<String> {
        vec![
            "get is asked only below len".into(),
            "wavelet-matrix alphabets are limited to 2^16 symbols (the matrix allocates one counter per symbol); values up to 2^64-1 are covered through WMCore".into(),
            "WMCore treats items as their lowest `width` bits (documented), so value arguments to the core are compared modulo 2^width".into(),
        ]
    }
}

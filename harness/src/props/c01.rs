//! C01 — plain bitvector answers every rank/select/pred/succ query exactly.

use crate::engine::{CaseResult, Fail, Prop, Report, Tier};
use crate::gen::{bits_spec, classify_bits, max_bits, BitsSpec};
use crate::model::{check_bitvec, Bits, Model, Plan, SetModel};
use crate::util::{frac, hash_of, mix};
use crate::{ensure, ensure_eq};
use proptest::prelude::*;
use serde::{Deserialize, Serialize};
use simple_sds::bit_vector::BitVector;
use simple_sds::ops::{BitVec, PredSucc, Rank, Select, SelectZero};
use simple_sds::raw_vector::{AccessRaw, PushRaw, RawVector};
use simple_sds::rl_vector::{RLBuilder, RLVector};
use simple_sds::sparse_vector::{SparseBuilder, SparseVector};
use std::collections::BTreeMap;
use std::convert::TryFrom;

pub struct C01;

#[derive(Clone, Debug, Serialize, Deserialize)]
pub struct Case {
    pub bits: BitsSpec,
    /// construction route 0..NUM_ROUTES
    pub route: u8,
    /// widths used by the push_int route
    pub chunk: Vec<u8>,
    /// order in which supports are enabled (indices into [rank, select, select_zero, pred_succ])
    pub order: Vec<u8>,
    /// extra query arguments as fractions of the length / of the counts
    pub extra: Vec<u16>,
    /// a piecewise periodic vector beyond 2^32 bits given as zones (length, period); the other fields select supports and arguments
    #[serde(default)]
    pub giant: Option<Vec<(u64, u32)>>,
}

pub const NUM_ROUTES: u8 = 11;

pub fn raw_by_push_bit(b: &Bits) -> RawVector {
    let mut r = RawVector::new();
    for i in 0..b.len {
        r.push_bit(b.get(i));
    }
    r
}

pub fn raw_by_set_bit(b: &Bits) -> RawVector {
    let mut r = RawVector::with_len(b.len, false);
    for p in b.positions() {
        r.set_bit(p, true);
    }
    r
}

pub fn raw_by_clear_bit(b: &Bits) -> RawVector {
    let mut r = RawVector::with_len(b.len, true);
    for i in 0..b.len {
        if !b.get(i) {
            r.set_bit(i, false);
        }
    }
    r
}

pub fn raw_by_push_int(b: &Bits, chunk: &[u8]) -> RawVector {
    let mut r = RawVector::with_capacity(b.len / 2);
    let mut pos = 0usize;
    let mut k = 0usize;
    while pos < b.len {
        let w = if chunk.is_empty() { 64 } else { (chunk[k % chunk.len()] as usize % 64) + 1 };
        k += 1;
        let w = w.min(b.len - pos);
        let mut v = 0u64;
        for j in 0..w {
            if b.get(pos + j) {
                v |= 1u64 << j;
            }
        }
        // also exercise values wider than the field: the high garbage must be masked away
        let garbage = if w < 64 && k % 3 == 0 { !0u64 << w } else { 0 };
        unsafe { r.push_int(v | garbage, w) };
        pos += w;
    }
    r
}

/// push_bit / push_int interleaved with junk that is pushed and popped again (pop_bit, pop_int): the popped bits must not survive
pub fn raw_by_push_pop(b: &Bits, chunk: &[u8]) -> RawVector {
    use simple_sds::raw_vector::PopRaw;
    let mut r = RawVector::new();
    let mut k = 0usize;
    for i in 0..b.len {
        let c = if chunk.is_empty() { 3 } else { chunk[k % chunk.len()] as usize };
        k += 1;
        if c % 5 == 0 {
            // junk bits, all ones, removed again one by one
            let n = c % 7 + 1;
            for _ in 0..n {
                r.push_bit(true);
            }
            for _ in 0..n {
                r.pop_bit();
            }
        } else if c % 5 == 1 {
            let w = c % 64 + 1;
            unsafe {
                r.push_int(!0u64, w);
                r.pop_int(w);
            }
        }
        r.push_bit(b.get(i));
    }
    r
}

/// build the complement, then call complement()
pub fn raw_by_complement(b: &Bits) -> RawVector {
    raw_by_set_bit(&b.complement()).complement()
}

pub fn sparse_from(b: &Bits) -> SparseVector {
    let ones = b.positions();
    let mut builder = SparseBuilder::new(b.len, ones.len()).expect("SparseBuilder::new");
    for p in ones {
        builder.set(p);
    }
    SparseVector::try_from(builder).expect("SparseVector::try_from")
}

pub fn rl_from(b: &Bits) -> RLVector {
    let mut builder = RLBuilder::new();
    for (s, l) in b.runs() {
        builder.try_set(s, l).expect("RLBuilder::try_set");
    }
    builder.set_len(b.len);
    RLVector::from(builder)
}

pub fn build_route(b: &Bits, route: u8, chunk: &[u8]) -> BitVector {
    match route % NUM_ROUTES {
        0 => BitVector::from(raw_by_push_bit(b)),
        1 => BitVector::from(raw_by_set_bit(b)),
        2 => BitVector::from(raw_by_push_int(b, chunk)),
        3 => b.to_bools().into_iter().collect::<BitVector>(),
        // an iterator with the size hint (0, Some(len + 2^56)): only the lower bound may be relied on
        4 => (0..b.len).filter(|_| true).map(|i| b.get(i)).chain((0..(1u64 << 56)).take_while(|_| false).map(|_| false)).collect::<BitVector>(),
        5 => BitVector::from(sparse_from(b)),
        6 => BitVector::from(rl_from(b)),
        7 => BitVector::copy_bit_vec(&sparse_from(b)),
        8 => BitVector::from(raw_by_clear_bit(b)),
        9 => BitVector::from(raw_by_push_pop(b, chunk)),
        _ => BitVector::from(raw_by_complement(b)),
    }
}

pub fn enable(bv: &mut BitVector, which: u8) {
    match which % 4 {
        0 => bv.enable_rank(),
        1 => bv.enable_select(),
        2 => bv.enable_select_zero(),
        _ => bv.enable_pred_succ(),
    }
}

pub fn enable_all(bv: &mut BitVector, order: &[u8]) {
    for &w in order {
        enable(bv, w);
    }
    bv.enable_rank();
    bv.enable_select();
    bv.enable_select_zero();
    bv.enable_pred_succ();
}

/// Arguments that sit on the structural edges of the plain bitvector (words, 512-bit rank blocks, 4096-one superblocks, 64-one blocks).
pub fn edge_arguments(model: &SetModel, extra: &[u16], idx: &mut Vec<usize>, ranks: &mut Vec<usize>) {
    let n = model.n;
    let m = model.m();
    let mut b = 512;
    while b <= n + 512 && idx.len() < 40_000 {
        idx.push(b - 1);
        idx.push(b);
        idx.push(b + 1);
        b += 512;
    }
    let mut r = 0;
    while r <= m + 4096 {
        for d in [0usize, 1, 63, 64, 65, 4095] {
            ranks.push(r + d);
        }
        if r < m {
            let p = model.ones[r];
            idx.push(p);
            idx.push(p + 1);
            idx.push(p.saturating_sub(1));
        }
        r += 4096;
    }
    // the same for zeros: ranks only (positions follow from select_zero)
    let z = model.zeros();
    let mut r = 0;
    while r <= z + 4096 {
        for d in [0usize, 1, 63, 64, 65, 4095] {
            ranks.push(r + d);
        }
        r += 4096;
    }
    for (k, &f) in extra.iter().enumerate() {
        if k % 2 == 0 {
            idx.push(frac(f, n.saturating_add(1)));
        } else {
            ranks.push(frac(f, n.max(1)));
        }
    }
}

fn check(case: &Case, full_limit: usize) -> CaseResult {
    let bits = case.bits.expand();
    let model = SetModel::from_bits(&bits);
    let mut rep = Report::new();
    let n = bits.len;
    let m = model.m();

    let mut bv = build_route(&bits, case.route, &case.chunk);
    ensure_eq!(bv.len(), n, "BitVector.len", "route {} length", case.route % NUM_ROUTES);
    rep.class(&format!("route:{}", case.route % NUM_ROUTES));

    // all routes give equal vectors (compared without supports)
    if n <= full_limit {
        for r in 0..NUM_ROUTES {
            if r != case.route % NUM_ROUTES {
                let other = build_route(&bits, r, &case.chunk);
                ensure!(other == bv, "BitVector.routes-equal", "BitVector built by route {} != route {} for the same {} bits", r, case.route % NUM_ROUTES, n);
            }
        }
    } else {
        let other = build_route(&bits, if case.route % NUM_ROUTES == 1 { 0 } else { 1 }, &case.chunk);
        ensure!(other == bv, "BitVector.routes-equal", "BitVector built by two raw-vector routes differ for the same {} bits", n);
    }

    // unsupported state
    ensure!(!bv.supports_rank() && !bv.supports_select() && !bv.supports_select_zero() && !bv.supports_pred_succ(), "BitVector.supports", "fresh vector claims supports");
    enable_all(&mut bv, &case.order);
    ensure!(bv.supports_rank() && bv.supports_select() && bv.supports_select_zero() && bv.supports_pred_succ(), "BitVector.supports", "supports missing after enabling");

    let plan = if n <= full_limit {
        Plan::all(&model)
    } else {
        let mut idx = Vec::new();
        let mut ranks = Vec::new();
        edge_arguments(&model, &case.extra, &mut idx, &mut ranks);
        Plan::sampled(&model, 3000, &idx, &ranks, usize::MAX)
    };
    check_bitvec(&bv, &model, &plan, "BitVector")?;
    // the raw data is the bit sequence
    let raw: &RawVector = bv.as_ref();
    ensure_eq!(raw.len(), n, "BitVector.as_ref", "raw length");
    ensure_eq!(raw.count_ones(), m, "BitVector.as_ref", "raw count_ones");
    // the public building blocks of the supports, asked directly with valid arguments
    if n <= 6000 {
        use simple_sds::bit_vector::rank_support::RankSupport;
        use simple_sds::bit_vector::select_support::SelectSupport;
        use simple_sds::bit_vector::{Complement, Identity};
        let rs = RankSupport::new(&bv);
        let s1 = SelectSupport::<Identity>::new(&bv);
        let s0 = SelectSupport::<Complement>::new(&bv);
        let step = (n / 97).max(1);
        let mut i = 0;
        while i < n {
            ensure_eq!(rs.rank(&bv, i), model.rank(i), "RankSupport.rank", "RankSupport::rank(bv, {})", i);
            i += step;
        }
        let mstep = (m / 61).max(1);
        let mut r = 0;
        while r < m {
            ensure_eq!(Some(s1.select(&bv, r)), model.select(r), "SelectSupport.select", "SelectSupport::<Identity>::select(bv, {})", r);
            r += mstep;
        }
        let z = n - m;
        let zstep = (z / 61).max(1);
        let mut r = 0;
        while r < z {
            ensure_eq!(Some(s0.select(&bv, r)), model.select_zero(r), "SelectSupport.select", "SelectSupport::<Complement>::select(bv, {})", r);
            r += zstep;
        }
        if m > 0 {
            ensure_eq!(Some(s1.select(&bv, m - 1)), model.select(m - 1), "SelectSupport.select", "SelectSupport::<Identity>::select of the last set bit");
        }
        if z > 0 {
            ensure_eq!(Some(s0.select(&bv, z - 1)), model.select_zero(z - 1), "SelectSupport.select", "SelectSupport::<Complement>::select of the last unset bit");
        }
    }
    // clone_from() onto a vector with other bits and supports gives the same vector: nothing cached in the target may survive
    {
        let mut other = BitVector::from(RawVector::with_len(n / 2 + 77, true));
        other.enable_rank();
        other.enable_select();
        other.clone_from(&bv);
        ensure!(other == bv, "BitVector.clone_from", "clone_from() result != source");
        let small = Plan::sampled(&model, 20, &[], &[], if n <= 3000 { usize::MAX } else { 0 });
        check_bitvec(&other, &model, &small, "BitVector(clone_from)")?;
    }
    // and converting back gives the raw vector the bits were pushed into
    let back = RawVector::from(bv.clone());
    ensure!(back == raw_by_push_bit(&bits), "RawVector.from(BitVector)", "RawVector::from(BitVector) differs from the {} bits pushed one by one (route {})", n, case.route % NUM_ROUTES);

    classify_bits(&bits, &mut rep.classes);
    rep.class(if n <= full_limit { "plan:all-arguments" } else { "plan:edges+sampled" });
    if n >= 2 && m > 0 && m < n {
        rep.nontrivial(bits.digest());
    }
    Ok(rep)
}

impl Prop for C01 {
    type Case = Case;
    const ID: &'static str = "C01";
    const RULE: &'static str = "bit sequences by regime (lengths around 64/512/4096/2^16/bit_len^4 thresholds; uniform densities 0.001..0.999, clustered runs, 4096 packed + few spread ones, complemented) built by one of 11 public routes (raw vector by push_bit / set_bit / clearing bits / push_int chunks / pushes interleaved with popped junk / complement(), bool iterators with and without size hint, conversions from the sparse and run-length vector) with supports enabled in a generated order, every query compared with a sorted-set model (all arguments 0..=len+1 and extremes when len <= limit, structural edges + sampled otherwise); plus all bit strings of length <= 12 (quick) / 16 (thorough). Plus 1 (quick) / 3 (thorough) piecewise periodic vectors of 2^32 + k up to 2^33 bits per configuration (dense, empty, full and sparse zones; more than 2^32 set or unset bits in the thorough ones), compared with a closed-form model at ~60 000 arguments each (zone edges, +-70 around 2^31/2^32/2^33 as positions and as ranks, around 20 000 evenly spread set bits). Non-trivial: len >= 2 and 0 < ones < len; distinct by (len, bits) digest.";

    fn cases(tier: Tier) -> u32 {
        tier.pick(2400, 60_000)
    }

    fn strategy(tier: Tier, _cfg: &str) -> BoxedStrategy<Case> {
        (bits_spec(max_bits(tier)), 0u8..NUM_ROUTES, proptest::collection::vec(any::<u8>(), 0..6), proptest::collection::vec(0u8..4, 0..6), proptest::collection::vec(any::<u16>(), 0..64))
            .prop_map(|(bits, route, chunk, order, extra)| Case { bits, route, chunk, order, extra, giant: None })
            .boxed()
    }

    fn exhaustive(tier: Tier, shard: usize, nshards: usize, emit: &mut dyn FnMut(Case) -> bool) {
        let max = tier.pick(12usize, 16usize);
        let mut idx = 0usize;
        for len in 0..=max {
            for v in 0u32..(1u32 << len) {
                idx += 1;
                if (idx - 1) % nshards != shard {
                    continue;
                }
                let bools: Vec<bool> = (0..len).map(|i| (v >> i) & 1 == 1).collect();
                let case = Case { bits: BitsSpec::Bools(bools), route: (idx % NUM_ROUTES as usize) as u8, chunk: vec![(idx % 7) as u8], order: vec![(idx % 4) as u8, ((idx / 4) % 4) as u8], extra: vec![], giant: None };
                if !emit(case) {
                    return;
                }
            }
        }
        // vectors beyond 2^32 bits: one per shard at most
        let giants = giant_specs(tier);
        for (k, g) in giants.into_iter().enumerate() {
            if k % nshards == shard {
                let case = Case { bits: BitsSpec::Bools(Vec::new()), route: 0, chunk: vec![], order: vec![(k % 4) as u8, ((k / 2) % 4) as u8], extra: vec![k as u16 * 7919, 65535 - k as u16 * 104, 32768], giant: Some(g) };
                if !emit(case) {
                    return;
                }
            }
        }
    }

    fn exhaustive_note(tier: Tier) -> Option<String> {
        Some(format!("every bit string of length 0..={} x every query argument", tier.pick(12, 16)))
    }

    fn run(case: &Case) -> CaseResult {
        if let Some(zones) = &case.giant {
            return check_giant(case, zones);
        }
        // every argument for vectors up to this length, edges + sampled above
        check(case, 20_000)
    }

    fn health(classes: &BTreeMap<String, u64>, _tier: Tier) -> Result<(), String> {
        for c in ["long-superblock(ones)", "long-superblock(zeros)", "short-superblock(ones)", "short-superblock(zeros)", ">1-superblock(ones)", ">1-superblock(zeros)", "long+short(ones)", "long+short(zeros)", ">=2-long-superblocks(ones)", ">=2-long-superblocks(zeros)", "long-after-short(ones)", "short-after-long(ones)", "long-after-short(zeros)", "short-after-long(zeros)", "partial-last-word", "plan:all-arguments", "plan:edges+sampled", "giant(>2^32 bits)"] {
            if classes.get(c).copied().unwrap_or(0) == 0 {
                return Err(format!("no generated case reached class {}", c));
            }
        }
        Ok(())
    }

    fn assumptions() -> Vec<String> {
        vec![
            "get is asked only below len and rank_zero only up to len (their documented domains)".into(),
            "vectors above 20 000 bits are queried at structural edges (word/512-bit block/4096-one superblock/64-one block boundaries +-1), around 3000 evenly spread set bits, and at generated arguments, not at every argument".into(),
            "generated plain bitvectors are limited to 450 000 bits (quick) / 2 000 000 bits (thorough); beyond that only the listed piecewise periodic vectors of 2^32..2^33 bits are built".into(),
        ]
    }
}

/// Zone lists (length, period) of the vectors beyond 2^32 bits: dense short superblocks, long superblocks (4096 set bits
/// spanning more than bit_len(n)^4 ~ 1.2M bits need a period above ~290), empty and full zones, boundaries next to 2^32.
fn giant_specs(tier: Tier) -> Vec<Vec<(u64, u32)>> {
    let g32 = 1u64 << 32;
    let mut v = vec![
        // dense periodic start, a gap, then sparse (long superblocks) across 2^32
        vec![(1 << 31, 9), ((1 << 31) - (1 << 22), 0), ((1 << 23) + 77, 700)],
    ];
    if tier == Tier::Thorough {
        // almost full: the unset bits are sparse and lie beyond 2^32 ranks
        v.push(vec![(g32 + 12_345, 1), (1 << 24, 300), (1 << 20, 2), (999, 1)]);
        // 2^33 bits, more than 2^32 unset bits before a dense tail
        v.push(vec![(g32 + 5, 513), (g32 - 64, 5), (64 + 31, 0)]);
    }
    v
}

fn check_giant(case: &Case, zones: &[(u64, u32)]) -> CaseResult {
    use crate::model::PeriodicModel;
    let mut rep = Report::new();
    let spec: Vec<(usize, usize)> = zones.iter().map(|&(l, k)| (l as usize, k as usize)).collect();
    let model = PeriodicModel::new(&spec);
    let n = model.n();
    let mut raw = RawVector::with_len(n, false);
    for z in 0..model.zones.len() {
        let (start, end, k) = model.zones[z];
        if k == 1 {
            // a full zone: whole words at a time
            let mut p = start;
            while p < end && p % 64 != 0 {
                raw.set_bit(p, true);
                p += 1;
            }
            while p + 64 <= end {
                unsafe { raw.set_int(p, u64::MAX, 64) };
                p += 64;
            }
            while p < end {
                raw.set_bit(p, true);
                p += 1;
            }
        } else {
            for p in model.zone_ones(z) {
                raw.set_bit(p, true);
            }
        }
    }
    let mut bv = BitVector::from(raw);
    for &w in &case.order {
        enable(&mut bv, w);
    }
    bv.enable_rank();
    bv.enable_select();
    bv.enable_select_zero();
    let m = model.m();
    let zeros = model.zeros();
    let g32 = 1usize << 32;
    let mut extra_idx: Vec<usize> = Vec::new();
    let mut extra_ranks: Vec<usize> = Vec::new();
    for d in 0..70usize {
        for base in [g32, g32 / 2, g32 * 2] {
            extra_idx.push(base + d);
            extra_idx.push(base - d);
            extra_ranks.push(base + d);
            extra_ranks.push(base.saturating_sub(d));
        }
    }
    for &(start, end, _) in &model.zones {
        for d in 0..3usize {
            extra_idx.push(start + d);
            extra_idx.push(start.saturating_sub(d));
            extra_idx.push(end.saturating_sub(d));
        }
        let (r0, r1) = (model.rank(start), model.rank(end));
        let (z0, z1) = (start - r0, end - r1);
        for d in 0..3usize {
            for r in [r0, r1, z0, z1] {
                extra_ranks.push(r + d);
                extra_ranks.push(r.saturating_sub(d));
            }
        }
    }
    for (j, &f) in case.extra.iter().enumerate() {
        extra_idx.push(frac(f, n));
        extra_ranks.push(frac(f, if j % 2 == 0 { m } else { zeros }));
    }
    let plan = Plan::sampled(&model, 20_000, &extra_idx, &extra_ranks, 0);
    check_bitvec(&bv, &model, &plan, "BitVector(>2^32 bits)")?;
    rep.evals += (plan.idx.len() + plan.ranks.len() + plan.zranks.len()) as u64;
    rep.class("giant(>2^32 bits)");
    rep.class_if(m > g32, "giant:>2^32 ones");
    rep.class_if(zeros > g32, "giant:>2^32 zeros");
    rep.nontrivial(mix(0x91a7, hash_of(&zones.to_vec())));
    Ok(rep)
}

#[allow(dead_code)]
fn _unused(_: Fail) {}

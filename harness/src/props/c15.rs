//! C15 — sparse vectors built as multisets answer present-value queries naturally.

use crate::engine::{CaseResult, Fail, Prop, Report, Tier};
use crate::model::{check_bitvec, Model, Plan, SetModel};
use crate::util::hash_of;
use crate::{ensure, ensure_eq};
use proptest::prelude::*;
use serde::{Deserialize, Serialize};
use simple_sds::ops::{BitVec, Select};
use simple_sds::sparse_vector::{SparseBuilder, SparseVector};
use std::collections::{BTreeMap, VecDeque};
use std::convert::TryFrom;

pub struct C15;

#[derive(Clone, Debug, Serialize, Deserialize, Hash)]
pub struct Case {
    /// universe size (>= 1 when there are values)
    pub universe: usize,
    /// (increment as a 64-bit fraction of the universe or a small step, number of extra copies)
    pub steps: Vec<(Step, u8)>,
    /// 0 builder set, 1 try_set, 2 extend, 3 try_from_iter (universe becomes last + 1)
    pub route: u8,
    /// an arbitrary (possibly unsorted) sequence for the accept/reject rule of try_from_iter
    pub arbitrary: Vec<u16>,
    /// pattern of front/back calls on the bit iterator
    pub pattern: Vec<bool>,
    pub extra: Vec<u64>,
}

#[derive(Clone, Copy, Debug, Serialize, Deserialize, Hash)]
pub enum Step {
    /// stay on the same value (a duplicate)
    Same,
    Small(u8),
    /// jump by this fraction of the remaining universe
    Frac(u16),
    /// go to the last position of the universe
    ToEnd,
    /// go to the next multiple of 2^k (bucket edges for any low width), minus one if the flag is set
    Edge(u8, bool),
    /// stay on the same value and add this many more copies (heavy duplicates: the unary-coded high part gets long runs of ones)
    Repeat(u16),
    /// this many further values, each a small irregular step (1..=k) after the previous one
    Spread(u16, u8),
}

impl Case {
    pub fn values(&self) -> Vec<usize> {
        let n = self.universe;
        let mut out = Vec::new();
        if n == 0 {
            return out;
        }
        let mut cur = 0usize;
        for &(step, copies) in &self.steps {
            if let Step::Repeat(count) = step {
                for _ in 0..count {
                    out.push(cur.min(n - 1));
                }
                continue;
            }
            if let Step::Spread(count, k) = step {
                let mut x = cur as u64 ^ 0x9e3779b97f4a7c15;
                for _ in 0..count {
                    x = x.wrapping_mul(6364136223846793005).wrapping_add(1442695040888963407);
                    cur = cur.saturating_add(1 + ((x >> 33) as usize % (k as usize + 1))).min(n - 1);
                    out.push(cur);
                }
                continue;
            }
            cur = match step {
                Step::Same => cur,
                Step::Small(d) => cur.saturating_add(d as usize),
                Step::Frac(f) => cur.saturating_add((((n - 1 - cur.min(n - 1)) as u128 * f as u128) >> 16) as usize),
                Step::ToEnd => n - 1,
                Step::Repeat(_) | Step::Spread(_, _) => cur,
                Step::Edge(k, minus) => {
                    let unit = 1usize << (k % 63);
                    let next = (cur / unit).saturating_add(1).saturating_mul(unit);
                    if minus {
                        next.saturating_sub(1).max(cur)
                    } else {
                        next
                    }
                }
            }
            .min(n - 1);
            for _ in 0..=copies as usize % 6 {
                out.push(cur);
            }
        }
        out
    }
}

pub fn build_multiset(n: usize, vals: &[usize], route: u8) -> Result<SparseVector, Fail> {
    match route % 4 {
        1 => {
            let mut b = SparseBuilder::multiset(n, vals.len());
            for &v in vals {
                b.try_set(v).map_err(|e| Fail::new("SparseBuilder.try_set", format!("try_set({}) refused in a multiset builder over {}: {}", v, n, e)))?;
            }
            SparseVector::try_from(b).map_err(|e| Fail::new("SparseVector.try_from", e.to_string()))
        }
        2 => {
            let mut b = SparseBuilder::multiset(n, vals.len());
            b.extend(vals.iter().copied());
            SparseVector::try_from(b).map_err(|e| Fail::new("SparseVector.try_from", e.to_string()))
        }
        3 if !vals.is_empty() && vals[vals.len() - 1] == n - 1 => SparseVector::try_from_iter(vals.iter().copied()).map_err(|e| Fail::new("SparseVector.try_from_iter", format!("try_from_iter refused a non-decreasing sequence: {}", e))),
        _ => {
            let mut b = SparseBuilder::multiset(n, vals.len());
            for &v in vals {
                b.set(v);
            }
            SparseVector::try_from(b).map_err(|e| Fail::new("SparseVector.try_from", e.to_string()))
        }
    }
}

fn check_multiset(sv: &SparseVector, model: &SetModel, case: &Case, rep: &mut Report) -> Result<(), Fail> {
    let n = model.n;
    let m = model.m();
    let has_dup = model.ones.windows(2).any(|w| w[0] == w[1]);
    ensure_eq!(sv.is_multiset(), has_dup, "SparseVector.is_multiset", "is_multiset()");
    ensure_eq!(sv.count_zeros(), n.saturating_sub(m), "SparseVector.count_zeros", "count_zeros() must saturate for overfull multisets");
    let mut plan = if n <= 2500 {
        Plan::all(model)
    } else {
        let idx: Vec<usize> = case.extra.iter().map(|&e| ((e as u128 * (n as u128 + 1)) >> 64) as usize).collect();
        Plan::sampled(model, 300, &idx, &[], 100_000)
    };
    plan.skip_zero_side = true; // rank_zero / select_zero are documented as not working for multisets
    check_bitvec(sv, model, &plan, "SparseVector(multiset)")?;

    // set-bit iterator backwards
    if m <= 100_000 {
        let back: Vec<(usize, usize)> = sv.one_iter().rev().collect();
        let want: Vec<(usize, usize)> = model.ones.iter().copied().enumerate().rev().collect();
        ensure!(back == want, "SparseVector.one_iter.rev", "one_iter().rev() differs from the values in reverse with ranks");
    }
    // set-bit iterator: a generated interleaving of next / next_back / nth(k) / nth_back(k) lists every value exactly once
    if m <= 100_000 {
        let mut dq: VecDeque<(usize, usize)> = model.ones.iter().copied().enumerate().collect();
        let mut it = sv.one_iter();
        let mut k = 0usize;
        let mut guard = 0usize;
        while !dq.is_empty() && guard < 4000 {
            guard += 1;
            let front = if case.pattern.is_empty() { k % 2 == 0 } else { case.pattern[k % case.pattern.len()] };
            let e = if case.extra.is_empty() { (k as u64).wrapping_mul(0x9e37) } else { case.extra[k % case.extra.len()] };
            k += 1;
            ensure_eq!(it.len(), dq.len(), "SparseVector.one_iter.len", "len() of the set-bit iterator after {} calls", k - 1);
            // skip: mostly small, sometimes just around the remainder
            let skip = match e % 8 {
                0..=3 => 0usize,
                4 | 5 => (e >> 3) as usize % 4,
                6 => dq.len().saturating_sub(1) + (e >> 3) as usize % 3,
                _ => (e >> 3) as usize % (dq.len() + 2),
            };
            let want = if skip >= dq.len() {
                dq.clear();
                None
            } else if front {
                dq.drain(..skip);
                dq.pop_front()
            } else {
                dq.truncate(dq.len() - skip);
                dq.pop_back()
            };
            let (got, what) = match (front, skip) {
                (true, 0) => (it.next(), "next()".to_string()),
                (false, 0) => (it.next_back(), "next_back()".to_string()),
                (true, s) => (it.nth(s), format!("nth({})", s)),
                (false, s) => (it.nth_back(s), format!("nth_back({})", s)),
            };
            ensure_eq!(got, want, "SparseVector.one_iter.interleaved", "call {} ({}) of an interleaved walk over {} values", k, what, m);
        }
        if dq.is_empty() {
            ensure_eq!(it.next(), None, "SparseVector.one_iter.interleaved", "next() after the walk consumed everything");
            ensure_eq!(it.next_back(), None, "SparseVector.one_iter.interleaved", "next_back() after the walk consumed everything");
        }
        // the std adaptors that forward to nth
        if m >= 3 {
            let mut it = sv.one_iter().skip(m - 2);
            let _ = it.next_back();
            ensure_eq!(it.next(), Some((m - 2, model.ones[m - 2])), "SparseVector.one_iter.skip", "skip(m-2) then next_back() then next()");
            ensure_eq!(it.next(), None, "SparseVector.one_iter.skip", "nothing may be left");
        }
        rep.class("one-iterator-interleaved");
    }
    // bit iterator: forward, backward, interleaved -> distinct positions
    if n <= 20_000 {
        let bits: Vec<bool> = (0..n).map(|i| model.get(i)).collect();
        let fwd: Vec<bool> = sv.iter().collect();
        ensure!(fwd == bits, "SparseVector.iter", "iter() forward differs from the distinct positions (n={}, values {:?}..)", n, &model.ones[..m.min(8)]);
        let bwd: Vec<bool> = sv.iter().rev().collect();
        let mut rbits = bits.clone();
        rbits.reverse();
        ensure!(bwd == rbits, "SparseVector.iter.rev", "iter().rev() differs from the distinct positions (n={}, values {:?}..)", n, &model.ones[..m.min(8)]);
        let mut dq: VecDeque<bool> = bits.iter().copied().collect();
        let mut it = sv.iter();
        let mut k = 0usize;
        while !dq.is_empty() {
            let front = if case.pattern.is_empty() { k % 2 == 0 } else { case.pattern[k % case.pattern.len()] };
            k += 1;
            ensure_eq!(it.len(), dq.len(), "SparseVector.iter.len", "len() of the bit iterator after {} calls", k - 1);
            let (got, want) = if front { (it.next(), dq.pop_front()) } else { (it.next_back(), dq.pop_back()) };
            ensure_eq!(got, want, "SparseVector.iter.interleaved", "call {} ({}) of an interleaved walk over n={}", k, if front { "next" } else { "next_back" }, n);
        }
        ensure_eq!(it.next(), None, "SparseVector.iter.interleaved", "next() after exhaustion");
        ensure_eq!(it.next_back(), None, "SparseVector.iter.interleaved", "next_back() after exhaustion");
        rep.class("bit-iterator-interleaved");
    }
    Ok(())
}

impl Prop for C15 {
    type Case = Case;
    const ID: &'static str = "C15";
    const RULE: &'static str = "(universe, non-decreasing value list): universes 1..2000 and up to 2^64-1; values generated as steps {same value, small step, fraction of the rest, jump to the end, next multiple of 2^k (-1)} each repeated 1..6 times, so duplicates occur at 0, at universe-1, at bucket edges and in long runs, including overfull lists (more values than the universe); built by builder set / try_set / extend / try_from_iter; oracle: sorted-Vec model for count_ones, len, select, rank (= number of values below i), get, successor (first occurrence), predecessor (last occurrence), one_iter forward/backward and under a generated interleaving of next/next_back/nth/nth_back (also through skip), bit iterator forward/backward/generated interleaving (distinct positions), is_multiset, saturating count_zeros; try_from_iter on arbitrary sequences is Ok iff non-decreasing and then len = last+1. All non-decreasing lists of length <= 5 over universes <= 5 enumerated. rank_zero/select_zero are not asserted (documented as not working). Non-trivial: at least one duplicate; distinct by (universe, values).";

    fn cases(tier: Tier) -> u32 {
        tier.pick(20_000, 200_000)
    }

    fn strategy(_tier: Tier, _cfg: &str) -> BoxedStrategy<Case> {
        let universe = prop_oneof![
            6 => 1usize..60,
            6 => 1usize..2000,
            1 => prop_oneof![Just(1usize << 32), Just(1usize << 63), Just(usize::MAX), Just(usize::MAX - 1), (1usize << 40)..usize::MAX],
            1 => (0u32..64).prop_map(|k| 1usize << k),
        ];
        let step = prop_oneof![
            5 => Just(Step::Same),
            5 => (0u8..4).prop_map(Step::Small),
            2 => any::<u8>().prop_map(Step::Small),
            2 => any::<u16>().prop_map(Step::Frac),
            1 => Just(Step::ToEnd),
            2 => (0u8..63, any::<bool>()).prop_map(|(k, m)| Step::Edge(k, m)),
        ];
        let heavy = prop_oneof![
            2 => (20_000u16..=65_535).prop_map(Step::Repeat),
            2 => (1000u16..9000, 1u8..=200).prop_map(|(c, k)| Step::Spread(c, k)),
            1 => any::<u16>().prop_map(Step::Frac),
            1 => (0u8..4).prop_map(Step::Small),
        ];
        // a few very large multisets: the high bitvector then exceeds 83 521 bits and has long and short select superblocks
        let steps = prop_oneof![
            40 => proptest::collection::vec((step, prop_oneof![3 => Just(0u8), 2 => 0u8..6]), 0..120),
            1 => proptest::collection::vec((heavy, Just(0u8)), 3..9),
        ];
        (universe, steps, 0u8..4, proptest::collection::vec(0u16..12, 0..8), proptest::collection::vec(any::<bool>(), 0..12), proptest::collection::vec(any::<u64>(), 0..16))
            .prop_map(|(universe, steps, route, arbitrary, pattern, extra)| Case { universe, steps, route, arbitrary, pattern, extra })
            .boxed()
    }

    fn exhaustive(_tier: Tier, shard: usize, nshards: usize, emit: &mut dyn FnMut(Case) -> bool) {
        // all non-decreasing lists of length <= 5 over universes <= 5, expressed as Small steps
        let mut idx = 0usize;
        for n in 1..=5usize {
            for len in 0..=5usize {
                let total = n.pow(len as u32);
                for code in 0..total {
                    let mut c = code;
                    let mut list = Vec::with_capacity(len);
                    for _ in 0..len {
                        list.push(c % n);
                        c /= n;
                    }
                    if !list.windows(2).all(|w| w[0] <= w[1]) {
                        continue;
                    }
                    idx += 1;
                    if (idx - 1) % nshards != shard {
                        continue;
                    }
                    let mut steps = Vec::new();
                    let mut cur = 0usize;
                    for &v in &list {
                        steps.push((Step::Small((v - cur) as u8), 0u8));
                        cur = v;
                    }
                    let case = Case { universe: n, steps, route: (idx % 4) as u8, arbitrary: list.iter().rev().map(|&v| v as u16).collect(), pattern: vec![idx % 2 == 0, idx % 3 == 0, true], extra: vec![] };
                    if !emit(case) {
                        return;
                    }
                }
            }
        }
    }

    fn exhaustive_note(_tier: Tier) -> Option<String> {
        Some("all non-decreasing lists of length <= 5 over universes 1..=5 x all query arguments".into())
    }

    fn run(case: &Case) -> CaseResult {
        let mut rep = Report::new();
        let vals = case.values();
        let n = if case.route % 4 == 3 && !vals.is_empty() { vals[vals.len() - 1] + 1 } else { case.universe };
        // an empty multiset spends universe/2 bits on buckets: keep it allocatable (the property's own memory bound)
        let n = if vals.is_empty() { n.min(1usize << 27) } else { n };
        let vals: Vec<usize> = vals.into_iter().map(|v| v.min(n.saturating_sub(1))).collect();
        let model = SetModel::new(n, vals.clone());
        let sv = build_multiset(n, &vals, case.route)?;
        ensure_eq!(sv.len(), n, "SparseVector.len", "len() (route {})", case.route % 4);
        check_multiset(&sv, &model, case, &mut rep)?;
        // another route gives an equal vector
        let other = build_multiset(n, &vals, (case.route + 1) % 3)?;
        ensure!(other == sv, "SparseVector.routes-equal", "multiset built by route {} != route {}", case.route % 4, (case.route + 1) % 3);

        // accept / reject rule of try_from_iter on an arbitrary sequence
        let arb: Vec<usize> = case.arbitrary.iter().map(|&v| v as usize).collect();
        let sorted = arb.windows(2).all(|w| w[0] <= w[1]);
        match SparseVector::try_from_iter(arb.iter().copied()) {
            Ok(v) => {
                ensure!(sorted, "SparseVector.try_from_iter.accepts", "try_from_iter accepted the sequence {:?}, which is not non-decreasing", arb);
                let want_len = arb.last().map(|&l| l + 1).unwrap_or(0);
                ensure_eq!(v.len(), want_len, "SparseVector.try_from_iter.len", "universe of try_from_iter({:?})", arb);
                let got: Vec<usize> = v.one_iter().map(|x| x.1).collect();
                ensure!(got == arb, "SparseVector.try_from_iter.values", "values of try_from_iter({:?}) are {:?}", arb, got);
            }
            Err(e) => {
                ensure!(!sorted, "SparseVector.try_from_iter.rejects", "try_from_iter rejected the non-decreasing sequence {:?}: {}", arb, e);
            }
        }
        rep.class(if sorted { "try_from_iter:accepted" } else { "try_from_iter:rejected" });

        let m = vals.len();
        let has_dup = vals.windows(2).any(|w| w[0] == w[1]);
        rep.class(&format!("route:{}", case.route % 4));
        rep.class_if(m > n, "overfull");
        rep.class_if(has_dup && vals.first() == Some(&0) && vals.get(1) == Some(&0), "duplicate-at-0");
        rep.class_if(m >= 2 && vals[m - 1] == n - 1 && vals[m - 2] == n - 1, "duplicate-at-last-position");
        rep.class_if(n >= 1usize << 32, "universe>=2^32");
        rep.class_if(m == 1, "single-value");
        let longest = {
            let mut best = 0usize;
            let mut cur = 0usize;
            for k in 0..m {
                if k > 0 && vals[k] == vals[k - 1] {
                    cur += 1;
                } else {
                    cur = 1;
                }
                best = best.max(cur);
            }
            best
        };
        rep.class_if(longest >= 10, "duplicate-run>=10");
        rep.class_if(m >= 60_000, "m>=60000(long select superblocks in the high part possible)");
        if has_dup {
            rep.nontrivial(hash_of(&(n, &vals)));
        }
        Ok(rep)
    }

    fn health(classes: &BTreeMap<String, u64>, _tier: Tier) -> Result<(), String> {
        for c in ["overfull", "duplicate-at-0", "duplicate-at-last-position", "universe>=2^32", "single-value", "duplicate-run>=10", "m>=60000(long select superblocks in the high part possible)", "bit-iterator-interleaved", "one-iterator-interleaved", "try_from_iter:accepted", "try_from_iter:rejected", "route:0", "route:1", "route:2", "route:3"] {
            if classes.get(c).copied().unwrap_or(0) == 0 {
                return Err(format!("no generated case reached class {}", c));
            }
        }
        Ok(())
    }

    fn assumptions() -> Vec<String> {
        vec!["rank_zero, select_zero and zero_iter are not asserted for multisets (documented as not working)".into(), "values equal to usize::MAX are not generated for try_from_iter (the universe last+1 is not representable)".into()]
    }
}

//! C20 — temporary file names are unique within a process under concurrent use.

use crate::engine::{CaseResult, Fail, Prop, Report, Tier};
use crate::util::{hash_of, hash_str};
use proptest::prelude::*;
use serde::{Deserialize, Serialize};
use simple_sds::serialize::temp_file_name;
use std::collections::{BTreeMap, HashSet};
use std::sync::{Arc, Barrier, Mutex, OnceLock};

pub struct C20;

#[derive(Clone, Debug, Serialize, Deserialize, Hash)]
pub struct Case {
    pub threads: u8,
    pub calls: u16,
    /// name parts (cycled over the threads); may be empty, long or non-ASCII
    pub parts: Vec<String>,
    /// release all threads from a barrier at once
    pub barrier: bool,
    /// single-threaded calls made before and after the burst
    pub singles: u8,
    /// number of fresh child processes whose FIRST calls are made concurrently (0: none)
    #[serde(default)]
    pub fresh: u8,
}

/// Child process: `threads` threads spin until all are ready, then each makes `calls` calls with its name part
/// (thread t uses part t mod #parts); prints "<part index>\t<path>" per call.
pub fn first_calls_child(threads: usize, calls: usize, parts: &[String]) -> i32 {
    use std::sync::atomic::{AtomicUsize, Ordering};
    let ready = Arc::new(AtomicUsize::new(0));
    let handles: Vec<_> = (0..threads)
        .map(|t| {
            let ready = ready.clone();
            let k = t % parts.len().max(1);
            let part = parts.get(k).cloned().unwrap_or_default();
            std::thread::spawn(move || {
                ready.fetch_add(1, Ordering::SeqCst);
                while ready.load(Ordering::SeqCst) < threads {
                    std::hint::spin_loop();
                }
                (k, (0..calls).map(|_| temp_file_name(&part)).collect::<Vec<_>>())
            })
        })
        .collect();
    let mut out = String::new();
    for h in handles {
        match h.join() {
            Ok((k, paths)) => {
                for p in paths {
                    out.push_str(&format!("{}\t{}\n", k, p.to_string_lossy()));
                }
            }
            Err(_) => return 3,
        }
    }
    print!("{}", out);
    0
}

/// Run one fresh process and check its paths; returns the number of paths.
fn fresh_process(threads: usize, calls: usize, parts: &[String]) -> Result<u64, Fail> {
    let exe = std::env::current_exe().map_err(|e| Fail::new("infra", format!("current_exe: {}", e)))?;
    let joined = parts.join("\u{1f}");
    let outp = std::process::Command::new(exe).arg("c20-first").arg(threads.to_string()).arg(calls.to_string()).arg(&joined).output().map_err(|e| Fail::new("infra", format!("cannot start the child process: {}", e)))?;
    if !outp.status.success() {
        return Err(Fail::new("infra", format!("the child process failed: {:?}", outp.status)));
    }
    let text = String::from_utf8_lossy(&outp.stdout);
    let mut seen: HashSet<&str> = HashSet::new();
    let mut count = 0u64;
    for line in text.lines() {
        let (k, path) = match line.split_once('\t') {
            Some((k, p)) => (k.parse::<usize>().unwrap_or(0), p),
            None => return Err(Fail::new("infra", format!("unexpected line from the child process: {:?}", line))),
        };
        count += 1;
        if !seen.insert(path) {
            return Err(Fail::new("duplicate-path", format!("temp_file_name returned {} twice among the first calls of a fresh process ({} threads x {} calls, name parts {:?})", path, threads, calls, parts)));
        }
        let name = path.rsplit('/').next().unwrap_or(path);
        let part = parts.get(k).map(|s| s.as_str()).unwrap_or("");
        if !name.contains(part) {
            return Err(Fail::new("name-part-missing", format!("the file name {:?} does not contain the caller's name part {:?}", name, part)));
        }
    }
    if count != (threads * calls) as u64 {
        return Err(Fail::new("infra", format!("the child process printed {} paths instead of {}", count, threads * calls)));
    }
    Ok(count)
}

/// If the file name of `p` ends in decimal digits, the paths with that number increased by 1, 2, 3 and 9.
fn following_names(p: &std::path::Path) -> Vec<std::path::PathBuf> {
    let name = match p.file_name().and_then(|n| n.to_str()) {
        Some(n) => n,
        None => return Vec::new(),
    };
    let digits = name.chars().rev().take_while(|c| c.is_ascii_digit()).count();
    if digits == 0 || digits > 15 {
        return Vec::new();
    }
    let (head, tail) = name.split_at(name.len() - digits);
    let k: u64 = match tail.parse() {
        Ok(k) => k,
        Err(_) => return Vec::new(),
    };
    [1u64, 2, 3, 9].iter().map(|d| p.with_file_name(format!("{}{}", head, k + d))).collect()
}

/// every path handed out in this process so far (two independent 64-bit digests)
fn seen() -> &'static Mutex<HashSet<(u64, u64)>> {
    static SEEN: OnceLock<Mutex<HashSet<(u64, u64)>>> = OnceLock::new();
    SEEN.get_or_init(|| Mutex::new(HashSet::new()))
}

fn digest(p: &std::path::Path) -> (u64, u64) {
    let s = p.to_string_lossy();
    (hash_str(&s), hash_of(&(s.len(), s.as_bytes(), 0x5eedu32)))
}

impl Prop for C20 {
    type Case = Case;
    const ID: &'static str = "C20";
    const RULE: &'static str = "generated configurations: 2..64 threads (more than the 16 cores included) x 1..5000 calls per thread, released from a barrier or not, name parts empty / long / non-ASCII / with dots and spaces / differing only by trailing digits / shared between threads, sometimes with files planted under the next few names, a few single-threaded calls before and after each burst; 16 such rounds run concurrently in the process; in 30% of the cases 1..4 fresh child processes are started whose FIRST calls are made by 2..16 spinning threads at once (their paths are checked in the same way). Oracle over the whole history of the process: no path is ever returned twice (a process-wide set of all paths returned so far), every path's file name contains the caller's name part. Schedules are sampled by the OS scheduler, not enumerated. Non-trivial: >= 2 threads making >= 100 calls each in one burst; distinct by configuration.";

    fn cases(tier: Tier) -> u32 {
        tier.pick(320, 1200)
    }

    fn strategy(_tier: Tier, _cfg: &str) -> BoxedStrategy<Case> {
        let part = prop_oneof![
            4 => "[a-z]{1,8}",
            2 => "[a-z]{1,5}\\.[a-z]{1,4}",
            1 => "[a-z]{1,3}\\.[a-z]{1,3}\\.[a-z]{1,3}\\.?",
            1 => "[a-z]{1,4} [a-z_-]{1,4}",
            1 => Just(String::new()),
            1 => Just("shared".to_string()),
            1 => "[a-z0-9_-]{40,80}",
            1 => "[äöüßλж]{1,6}",
        ];
        let threads = prop_oneof![1 => 2u8..8, 5 => 8u8..=24, 2 => 24u8..=64];
        let calls = prop_oneof![1 => 1u16..100, 6 => 500u16..2500, 1 => 2500u16..5000];
        let fresh = prop_oneof![7 => Just(0u8), 3 => 1u8..5];
        let parts = prop_oneof![
            8 => proptest::collection::vec(part, 1..4),
            // name parts that differ only by trailing digits or separators: the rest of the file name must keep them apart
            2 => "[a-z]{1,3}".prop_map(|b| vec![b.clone(), format!("{}1", b), format!("{}10", b), format!("{}_", b), format!("{}_1", b)]),
        ];
        (threads, calls, parts, proptest::bool::weighted(0.8), 0u8..4, fresh).prop_map(|(threads, calls, parts, barrier, singles, fresh)| Case { threads, calls, parts, barrier, singles, fresh }).boxed()
    }

    fn run(case: &Case) -> CaseResult {
        let mut rep = Report::new();
        let threads = case.threads.max(2) as usize;
        let calls = case.calls.max(1) as usize;
        let mut all: Vec<(String, std::path::PathBuf)> = Vec::with_capacity(threads * calls + 8);
        for k in 0..case.singles {
            let part = &case.parts[k as usize % case.parts.len()];
            all.push((part.clone(), temp_file_name(part)));
        }
        // files that already exist under names the process is about to hand out must not make two calls agree
        let mut planted: Vec<std::path::PathBuf> = Vec::new();
        if case.singles > 0 {
            if let Some((_, p)) = all.last() {
                for q in following_names(p) {
                    if !q.exists() && std::fs::write(&q, b"").is_ok() {
                        planted.push(q);
                    }
                }
            }
            rep.class_if(!planted.is_empty(), "pre-existing-files-with-upcoming-names");
        }
        let barrier = Arc::new(Barrier::new(threads));
        let handles: Vec<_> = (0..threads)
            .map(|t| {
                let part = case.parts[t % case.parts.len()].clone();
                let barrier = barrier.clone();
                let use_barrier = case.barrier;
                std::thread::spawn(move || {
                    if use_barrier {
                        barrier.wait();
                    }
                    let mut out = Vec::with_capacity(calls);
                    for _ in 0..calls {
                        out.push(temp_file_name(&part));
                    }
                    (part, out)
                })
            })
            .collect();
        for h in handles {
            let (part, paths) = h.join().map_err(|_| Fail::new("infra", "a caller thread panicked"))?;
            for p in paths {
                all.push((part.clone(), p));
            }
        }
        for k in 0..case.singles {
            let part = &case.parts[k as usize % case.parts.len()];
            all.push((part.clone(), temp_file_name(part)));
        }
        for q in &planted {
            let _ = std::fs::remove_file(q);
        }
        // invariant over the history
        let mut local: HashSet<&std::path::Path> = HashSet::with_capacity(all.len());
        for (part, p) in &all {
            if !local.insert(p.as_path()) {
                return Err(Fail::new("duplicate-path", format!("temp_file_name returned {} twice within one round of {} threads x {} calls", p.display(), threads, calls)));
            }
            let name = p.file_name().map(|n| n.to_string_lossy().to_string()).unwrap_or_default();
            if !name.contains(part.as_str()) {
                return Err(Fail::new("name-part-missing", format!("the file name {:?} does not contain the caller's name part {:?}", name, part)));
            }
        }
        {
            let mut g = seen().lock().map_err(|_| Fail::new("infra", "poisoned"))?;
            for (_, p) in &all {
                if !g.insert(digest(p)) {
                    return Err(Fail::new("duplicate-path", format!("temp_file_name returned {} although the same path was already handed out earlier in this process", p.display())));
                }
            }
        }
        rep.evals = all.len() as u64;
        // fresh processes: the first calls of a process are made by several threads at once
        for k in 0..case.fresh as usize {
            let t = 2 + (threads + 3 * k) % 15;
            let c = 1 + (calls + 7 * k) % 300;
            rep.evals += fresh_process(t, c, &case.parts)?;
            rep.class("fresh-process(first calls concurrent)");
        }
        rep.class_if(case.parts.iter().any(|p| p.contains('.')), "name-part-with-dots");
        rep.class_if(case.parts.len() == 5 && case.parts[1].ends_with('1'), "name-parts-differing-by-trailing-digits");
        rep.class(match threads {
            2..=7 => "threads:2-7",
            8..=16 => "threads:8-16",
            _ => "threads:>16(more than cores)",
        });
        rep.class_if(threads >= 8 && calls >= 500, "heavy-burst(>=8 threads x >=500 calls)");
        rep.class_if(case.parts.iter().any(|p| p.is_empty()), "empty-name-part");
        rep.class_if(case.barrier, "barrier-released");
        if calls >= 100 {
            rep.nontrivial(hash_of(case));
        }
        Ok(rep)
    }

    fn health(classes: &BTreeMap<String, u64>, _tier: Tier) -> Result<(), String> {
        let total: u64 = ["threads:2-7", "threads:8-16", "threads:>16(more than cores)"].iter().map(|c| classes.get(*c).copied().unwrap_or(0)).sum();
        let heavy = classes.get("heavy-burst(>=8 threads x >=500 calls)").copied().unwrap_or(0);
        if total == 0 || heavy * 10 < total * 6 {
            return Err(format!("only {} of {} rounds are heavy bursts (need >= 60%)", heavy, total));
        }
        for c in ["fresh-process(first calls concurrent)", "name-part-with-dots", "name-parts-differing-by-trailing-digits", "pre-existing-files-with-upcoming-names"] {
            if classes.get(c).copied().unwrap_or(0) == 0 {
                return Err(format!("no generated case reached class {}", c));
            }
        }
        Ok(())
    }

    fn assumptions() -> Vec<String> {
        vec![
            "schedules are sampled by the OS scheduler with real threads, not enumerated: a lost update that needs a rarer interleaving than the bursts provoke can be missed (measured against a load+store variant of the counter: duplicates in 20/20 rounds of 16 threads x 1000 calls)".into(),
            "a replay of a failing round is a new sample of schedules, not the same schedule".into(),
            "uniqueness across the process history is tracked through two independent 64-bit digests of each path".into(),
        ]
    }
}

//! C17 — bit-level primitives are exact at every offset, width and word pattern.

use crate::engine::{CaseResult, Prop, Report, Tier};
use crate::util::{hash_of, SplitMix};
use crate::{ensure, ensure_eq};
use proptest::prelude::*;
use serde::{Deserialize, Serialize};
use simple_sds::bits;

pub struct C17;

#[derive(Clone, Debug, Serialize, Deserialize, Hash)]
pub enum Case {
    /// write `value` with `width` bits at `offset` into a 4-word array filled from `bg`
    RW { offset: u16, width: u8, value: u64, bg: [u64; 4] },
    /// in-word select for every rank below the popcount
    Select { word: u64 },
    Mask { n: u8 },
    BitLen { n: u64 },
    Reverse { n: u64, bits: u8 },
    /// rounding / conversion helpers on their non-overflowing domains
    Round { a: usize, b: usize },
}

fn ref_bit(words: &[u64; 4], i: usize) -> bool {
    (words[i / 64] >> (i % 64)) & 1 == 1
}

fn mask128(n: u32) -> u64 {
    ((1u128 << n) - 1) as u64
}

fn word_patterns() -> BoxedStrategy<u64> {
    prop_oneof![
        2 => any::<u64>(),
        2 => (any::<u64>(), any::<u64>()).prop_map(|(a, b)| a & b),
        2 => (any::<u64>(), any::<u64>(), any::<u64>()).prop_map(|(a, b, c)| a & b & c),
        1 => (any::<u64>(), any::<u64>()).prop_map(|(a, b)| a | b),
        1 => (0u32..64).prop_map(|k| 1u64 << k),
        1 => (0u32..64, 0u32..64).prop_map(|(a, b)| (1u64 << a) | (1u64 << b)),
        1 => (0u32..=64, 0u32..64).prop_map(|(l, s)| mask128(l).rotate_left(s)),
        1 => (any::<u8>(), 0u32..8).prop_map(|(b, k)| (b as u64) << (8 * k)),
        1 => any::<u8>().prop_map(|b| (b as u64) * 0x0101_0101_0101_0101),
        1 => prop_oneof![Just(0u64), Just(!0u64), Just(0x8080_8080_8080_8080), Just(0x0101_0101_0101_0101), Just(0x8000_0000_0000_0001), Just(0xFF00_0000_0000_00FF)],
    ]
    .boxed()
}

impl C17 {
    fn run_rw(offset: usize, width: usize, value: u64, bg: &[u64; 4], rep: &mut Report) -> Result<(), crate::engine::Fail> {
        let mut arr: Vec<u64> = bg.to_vec();
        // read-only check first: the field as stored in the background
        let mut want_bg: u64 = 0;
        for k in 0..width {
            if ref_bit(bg, offset + k) {
                want_bg |= 1u64 << k;
            }
        }
        let got_bg = unsafe { bits::read_int(&arr, offset, width) };
        ensure_eq!(got_bg, want_bg, "read_int", "read_int(offset={}, width={}) on background {:x?}", offset, width, bg);

        unsafe { bits::write_int(&mut arr, offset, value, width) };
        let truncated = if width == 64 { value } else { value & mask128(width as u32) };
        for i in 0..256 {
            let want = if i >= offset && i < offset + width { (truncated >> (i - offset)) & 1 == 1 } else { ref_bit(bg, i) };
            let got = (arr[i / 64] >> (i % 64)) & 1 == 1;
            ensure!(got == want, "write_int", "write_int(offset={}, value={:#x}, width={}) on background {:x?}: bit {} is {} but must be {} (array after: {:x?})", offset, value, width, bg, i, got, want, arr);
        }
        let back = unsafe { bits::read_int(&arr, offset, width) };
        ensure_eq!(back, truncated, "read_int", "read_int after write_int(offset={}, value={:#x}, width={})", offset, value, width);
        if offset % 64 + width > 64 {
            rep.nontrivial(hash_of(&("rw", offset, width, value, bg)));
            rep.class("rw:straddle");
        } else {
            rep.class("rw:single-word");
        }
        if value != truncated {
            rep.class("rw:value-wider-than-width");
        }
        Ok(())
    }
}

impl Prop for C17 {
    type Case = Case;
    const ID: &'static str = "C17";
    const RULE: &'static str = "complete enumeration of (offset 0..191, width 1..64) x 9 (value, background) combinations, all mask arguments 0..=64, all single-bit/two-bit words; plus generated (offset,width,value,background), words, and helper arguments. Non-trivial: a read/write whose field straddles two words, a select on a word with popcount >= 2, bit_len/reverse/rounding on a non-degenerate argument; distinct by argument tuple.";

    fn cases(tier: Tier) -> u32 {
        tier.pick(60_000, 1_500_000)
    }

    fn strategy(_tier: Tier, _cfg: &str) -> BoxedStrategy<Case> {
        prop_oneof![
            4 => (0u16..192, 1u8..=64, prop_oneof![any::<u64>(), Just(!0u64), Just(0u64)], prop_oneof![Just([0u64; 4]), Just([!0u64; 4]), any::<[u64; 4]>()])
                .prop_map(|(offset, width, value, bg)| Case::RW { offset, width, value, bg }),
            5 => word_patterns().prop_map(|word| Case::Select { word }),
            1 => (0u8..=64).prop_map(|n| Case::Mask { n }),
            1 => prop_oneof![any::<u64>(), (0u32..64).prop_map(|k| 1u64 << k), (0u32..64).prop_map(|k| (1u64 << k) - 1), (0u32..64).prop_map(|k| (1u64 << k) + 1)].prop_map(|n| Case::BitLen { n }),
            1 => (any::<u64>(), 1u8..=64).prop_map(|(n, bits)| Case::Reverse { n, bits }),
            2 => (prop_oneof![any::<usize>(), 0usize..100_000, (0u32..64).prop_map(|k| 1usize << k), (0u32..64).prop_map(|k| (1usize << k) - 1)], prop_oneof![1usize..100, any::<usize>(), (0u32..64).prop_map(|k| 1usize << k)])
                .prop_map(|(a, b)| Case::Round { a, b }),
        ]
        .boxed()
    }

    fn exhaustive(_tier: Tier, shard: usize, nshards: usize, emit: &mut dyn FnMut(Case) -> bool) {
        let mut idx = 0usize;
        let mut go = |c: Case, idx: &mut usize| -> bool {
            *idx += 1;
            if (*idx - 1) % nshards == shard {
                emit(c)
            } else {
                true
            }
        };
        for offset in 0u16..192 {
            for width in 1u8..=64 {
                let mut rng = SplitMix::new(((offset as u64) << 8) | width as u64);
                let rnd_bg = [rng.next(), rng.next(), rng.next(), rng.next()];
                let v = rng.next();
                let combos: [(u64, [u64; 4]); 9] = [
                    (0, [!0; 4]),
                    (!0, [0; 4]),
                    (!0, [!0; 4]),
                    (0, [0; 4]),
                    (v, rnd_bg),
                    (v, [0; 4]),
                    (v, [!0; 4]),
                    (1u64 << (width - 1), rnd_bg),
                    (0xAAAA_AAAA_AAAA_AAAA, [0x5555_5555_5555_5555; 4]),
                ];
                for (value, bg) in combos {
                    if !go(Case::RW { offset, width, value, bg }, &mut idx) {
                        return;
                    }
                }
            }
        }
        for n in 0u8..=64 {
            if !go(Case::Mask { n }, &mut idx) {
                return;
            }
        }
        for a in 0..64u32 {
            if !go(Case::Select { word: 1u64 << a }, &mut idx) {
                return;
            }
            if !go(Case::BitLen { n: 1u64 << a }, &mut idx) || !go(Case::BitLen { n: (1u64 << a) - 1 }, &mut idx) || !go(Case::BitLen { n: (1u64 << a) + 1 }, &mut idx) {
                return;
            }
            for b in 0..64u32 {
                if !go(Case::Select { word: (1u64 << a) | (1u64 << b) }, &mut idx) {
                    return;
                }
            }
            // runs of every length at every rotation
            for l in 0..=64u32 {
                if !go(Case::Select { word: mask128(l).rotate_left(a) }, &mut idx) {
                    return;
                }
            }
        }
        // every byte value at every byte position (the portable select works byte-wise)
        for b in 0..=255u64 {
            for k in 0..8 {
                if !go(Case::Select { word: b << (8 * k) }, &mut idx) || !go(Case::Select { word: (b << (8 * k)) | 0x0101_0101_0101_0101 }, &mut idx) {
                    return;
                }
            }
        }
    }

    fn exhaustive_note(_tier: Tier) -> Option<String> {
        Some("complete over (offset 0..191) x (width 1..64) x 9 value/background combinations; all n in 0..=64 for masks; all one-bit and two-bit words, all runs at all rotations, all byte values at all byte positions for select".into())
    }

    fn run(case: &Case) -> CaseResult {
        let mut rep = Report::new();
        match case {
            Case::RW { offset, width, value, bg } => {
                C17::run_rw(*offset as usize, *width as usize, *value, bg, &mut rep)?;
            }
            Case::Select { word } => {
                let word = *word;
                let pc = word.count_ones() as usize;
                let mut rank = 0usize;
                for pos in 0..64usize {
                    if (word >> pos) & 1 == 1 {
                        let got = unsafe { bits::select(word, rank) };
                        ensure_eq!(got, pos, "select", "bits::select({:#018x}, {})", word, rank);
                        rank += 1;
                    }
                }
                ensure_eq!(rank, pc, "harness", "popcount bookkeeping");
                rep.class(if cfg!(all(target_arch = "x86_64", target_feature = "bmi2")) { "select:bmi2" } else { "select:portable" });
                if pc >= 2 {
                    rep.nontrivial(hash_of(&("sel", word)));
                }
            }
            Case::Mask { n } => {
                let n = *n as usize;
                let low = mask128(n as u32);
                let high = if n == 0 { 0 } else { !mask128(64 - n as u32) };
                ensure_eq!(bits::low_set(n), low, "low_set", "low_set({})", n);
                ensure_eq!(bits::high_set(n), high, "high_set", "high_set({})", n);
                ensure_eq!(unsafe { bits::low_set_unchecked(n) }, low, "low_set_unchecked", "low_set_unchecked({})", n);
                ensure_eq!(unsafe { bits::high_set_unchecked(n) }, high, "high_set_unchecked", "high_set_unchecked({})", n);
                ensure_eq!(bits::filler_value(true), !0u64, "filler_value", "filler_value(true)");
                ensure_eq!(bits::filler_value(false), 0u64, "filler_value", "filler_value(false)");
                rep.class("mask");
                rep.nontrivial(hash_of(&("mask", n)));
            }
            Case::BitLen { n } => {
                let mut want = 1usize;
                let mut x = *n >> 1;
                while x != 0 {
                    want += 1;
                    x >>= 1;
                }
                ensure_eq!(bits::bit_len(*n), want, "bit_len", "bit_len({:#x})", n);
                rep.class("bit_len");
                if *n > 1 {
                    rep.nontrivial(hash_of(&("bl", n)));
                }
            }
            Case::Reverse { n, bits: b } => {
                let b = *b as usize;
                let mut want = 0u64;
                for k in 0..b {
                    if (*n >> k) & 1 == 1 {
                        want |= 1u64 << (b - 1 - k);
                    }
                }
                ensure_eq!(bits::reverse_low(*n, b), want, "reverse_low", "reverse_low({:#x}, {})", n, b);
                rep.class("reverse_low");
                if b > 1 {
                    rep.nontrivial(hash_of(&("rev", n, b)));
                }
            }
            Case::Round { a, b } => {
                let (a, b) = (*a, *b);
                let max = usize::MAX as u128;
                let (a128, b128) = (a as u128, b as u128);
                if b > 0 && a128 + b128 <= max {
                    ensure_eq!(bits::div_round_up(a, b) as u128, (a128 + b128 - 1) / b128, "div_round_up", "div_round_up({}, {})", a, b);
                }
                if a128 + 63 <= max {
                    ensure_eq!(bits::bits_to_words(a) as u128, (a128 + 63) / 64, "bits_to_words", "bits_to_words({})", a);
                    ensure_eq!(bits::round_up_to_word_bits(a) as u128, (a128 + 63) / 64 * 64, "round_up_to_word_bits", "round_up_to_word_bits({})", a);
                }
                if a128 + 7 <= max {
                    ensure_eq!(bits::bytes_to_words(a) as u128, (a128 + 7) / 8, "bytes_to_words", "bytes_to_words({})", a);
                    ensure_eq!(bits::round_up_to_word_bytes(a) as u128, (a128 + 7) / 8 * 8, "round_up_to_word_bytes", "round_up_to_word_bytes({})", a);
                }
                if a128 * 64 <= max {
                    ensure_eq!(bits::words_to_bits(a) as u128, a128 * 64, "words_to_bits", "words_to_bits({})", a);
                }
                if a128 * 8 <= max {
                    ensure_eq!(bits::words_to_bytes(a) as u128, a128 * 8, "words_to_bytes", "words_to_bytes({})", a);
                }
                let (idx, off) = bits::split_offset(a);
                ensure_eq!((idx as u128, off as u128), (a128 / 64, a128 % 64), "split_offset", "split_offset({})", a);
                ensure_eq!(bits::bit_offset(idx, off), a, "bit_offset", "bit_offset({}, {})", idx, off);
                rep.class("rounding");
                if a > 64 {
                    rep.nontrivial(hash_of(&("round", a, b)));
                }
            }
        }
        Ok(rep)
    }

    fn health(classes: &std::collections::BTreeMap<String, u64>, _tier: Tier) -> Result<(), String> {
        for c in ["rw:straddle", "rw:single-word", "mask", "bit_len", "reverse_low", "rounding"] {
            if classes.get(c).copied().unwrap_or(0) == 0 {
                return Err(format!("no case reached class {}", c));
            }
        }
        Ok(())
    }

    fn assumptions() -> Vec<String> {
        vec![
            "unsafe read_int/write_int/select are called only within their documented contracts (width <= 64, field inside the array, rank < popcount)".into(),
            "rounding helpers are only asserted on arguments whose documented intermediate sum/product does not exceed usize::MAX".into(),
            "which select implementation is compiled depends on the build configuration: chk and relubp compile the portable one, relub (target-cpu=native) the BMI2 one".into(),
        ]
    }
}

//! C05 — raw and integer vectors behave as plain sequences under any operation history.

use crate::engine::{CaseResult, Fail, Prop, Report, Tier};
use crate::model::Bits;
use crate::util::{bit_len, frac, hash_of, mix};
use crate::{ensure, ensure_eq};
use proptest::prelude::*;
use serde::{Deserialize, Serialize};
use simple_sds::int_vector::IntVector;
use simple_sds::ops::{Access, Pack, Pop, Push, Resize, Vector};
use simple_sds::raw_vector::{AccessRaw, PopRaw, PushRaw, RawVector};
use simple_sds::serialize::Serialize as SdsSerialize;
use std::collections::BTreeMap;

pub struct C05;

#[derive(Clone, Debug, Serialize, Deserialize, Hash)]
pub enum RawOp {
    PushBit(bool),
    PushInt(u64, u8),
    PopBit,
    PopInt(u8),
    SetBit(u16, bool),
    SetInt(u16, u64, u8),
    Resize(u16, bool),
    Clear,
    Reserve(u16),
    Complement,
    WithLen(u16, bool),
    WithCapacity(u16),
    Clone,
}

#[derive(Clone, Debug, Serialize, Deserialize, Hash)]
pub enum IntOp {
    New(u8),
    WithLen(u16, u8, u64),
    WithCapacity(u16, u8),
    Default,
    FromVec(u8, Vec<u64>),
    Collect(u8, Vec<u64>),
    Push(u64),
    Pop,
    Set(u16, u64),
    Resize(u16, u64),
    Clear,
    Reserve(u16),
    Pack,
    Extend(u8, Vec<u64>),
    Clone,
}

#[derive(Clone, Debug, Serialize, Deserialize, Hash)]
pub enum Case {
    Raw(Vec<RawOp>),
    Int(Vec<IntOp>),
    /// a vector of more than 2^32 bits / items (kind, length above 2^32, period of the pattern): checked against closed formulas
    Giant(u8, u32, u8),
}

/// Vectors beyond 2^32 bits: the reference is a periodic pattern with closed-form content and counts.
fn run_giant(kind: u8, extra: u32, period: u8, rep: &mut Report) -> Result<(), Fail> {
    let n: usize = (1usize << 32) + 3 + (extra as usize % (1 << 22));
    let words = (n + 63) / 64;
    match kind % 3 {
        0 => {
            // all ones: more than 2^32 set bits
            let mut v = RawVector::with_len(n, true);
            ensure_eq!(v.len(), n, "giant.len", "with_len({}, true).len()", n);
            ensure_eq!(v.count_ones(), n, "giant.count_ones", "count_ones() of {} set bits", n);
            ensure!(v.bit(0) && v.bit(n - 1) && v.bit(1 << 32) && v.bit((1 << 32) - 1), "giant.bit", "bits around 2^32 of an all-ones vector of {} bits", n);
            v.push_bit(false);
            v.push_bit(true);
            ensure_eq!(v.len(), n + 2, "giant.len", "length after two pushes");
            ensure_eq!(v.count_ones(), n + 1, "giant.count_ones", "count_ones() after pushing 0 and 1");
            ensure!(!v.bit(n) && v.bit(n + 1), "giant.bit", "pushed bits");
            let keep = (1usize << 32) - 5;
            v.resize(keep, false);
            ensure_eq!((v.len(), v.count_ones()), (keep, keep), "giant.resize", "(len, count_ones) after shrinking to {}", keep);
            v.resize(n, false);
            ensure_eq!((v.len(), v.count_ones()), (n, keep), "giant.resize", "(len, count_ones) after growing back with zeros");
            ensure_eq!(v.size_in_elements(), 2 + words, "giant.size", "size_in_elements");
            rep.class("giant:raw-all-ones");
        }
        1 => {
            // periodic words pushed 64 bits at a time, then a partial tail
            let p = (period as u64 % 63) + 1;
            let pattern: u64 = (0..64).filter(|i| i % p == 0).fold(0u64, |a, i| a | (1u64 << i));
            let per_word = pattern.count_ones() as usize;
            let mut v = RawVector::with_capacity(n);
            for _ in 0..n / 64 {
                unsafe { v.push_int(pattern, 64) };
            }
            let tail = n % 64;
            if tail > 0 {
                unsafe { v.push_int(pattern, tail) };
            }
            let tail_ones = if tail > 0 { (pattern & ((1u64 << tail) - 1)).count_ones() as usize } else { 0 };
            ensure_eq!(v.len(), n, "giant.len", "length after pushing {} bits in words", n);
            ensure_eq!(v.count_ones(), (n / 64) * per_word + tail_ones, "giant.count_ones", "count_ones() of a periodic vector of {} bits (period {})", n, p);
            let mut x = crate::util::SplitMix::new(extra as u64 ^ 0x61a7);
            for k in 0..20_000u64 {
                let i = if k % 4 == 0 { ((1u64 << 32) - 100 + k % 200) as usize } else { x.below(n as u64) as usize };
                let want = (i % 64) as u64 % p == 0;
                ensure_eq!(v.bit(i), want, "giant.bit", "bit {} of a periodic vector of {} bits", i, n);
                if i + 64 <= n {
                    let w = unsafe { v.int(i, 64) };
                    let off = i % 64;
                    let want_w = if off == 0 { pattern } else { (pattern >> off) | (pattern << (64 - off)) };
                    ensure_eq!(w, want_w, "giant.int", "int({}, 64) of a periodic vector", i);
                }
            }
            // more than 16 MiB of payload through serialize and load (loaders that cap or chunk their allocation)
            {
                let mut bytes: Vec<u8> = Vec::with_capacity(8 * v.size_in_elements());
                SdsSerialize::serialize(&v, &mut bytes).map_err(|e| Fail::new("giant.serialize", e.to_string()))?;
                ensure_eq!(bytes.len(), 8 * v.size_in_elements(), "giant.serialize", "bytes written for a vector of {} bits", n);
                let loaded = <RawVector as SdsSerialize>::load(&mut std::io::Cursor::new(&bytes[..])).map_err(|e| Fail::new("giant.load", format!("loading a raw vector of {} bits failed: {}", n, e)))?;
                drop(bytes);
                ensure!(loaded == v, "giant.load", "a raw vector of {} bits changed in a serialize/load round trip", n);
                ensure_eq!(loaded.count_ones(), v.count_ones(), "giant.load", "count_ones after the round trip");
            }
            rep.class("giant:raw-periodic");
        }
        _ => {
            // more than 2^32 one-bit items
            let mut v = IntVector::with_len(n, 1, 1).map_err(|e| Fail::new("giant.IntVector", e))?;
            ensure_eq!((v.len(), v.width()), (n, 1), "giant.IntVector", "(len, width) of with_len({}, 1, 1)", n);
            ensure!(v.get(0) == 1 && v.get(n - 1) == 1 && v.get(1 << 32) == 1, "giant.IntVector.get", "items around 2^32");
            v.set(1 << 32, 0);
            v.set((1 << 32) - 1, 0);
            ensure!(v.get(1 << 32) == 0 && v.get((1 << 32) - 1) == 0 && v.get((1 << 32) + 1) == 1 && v.get((1 << 32) - 2) == 1, "giant.IntVector.set", "set around 2^32 changed exactly the two items");
            v.push(0);
            ensure_eq!(v.len(), n + 1, "giant.IntVector.len", "length after push");
            ensure_eq!(v.pop(), Some(0), "giant.IntVector.pop", "popped item");
            let raw: &RawVector = v.as_ref();
            ensure_eq!((raw.len(), raw.count_ones()), (n, n - 2), "giant.IntVector.raw", "(len, count_ones) of the underlying raw vector");
            ensure_eq!(v.size_in_elements(), 4 + words, "giant.size", "size_in_elements");
            rep.class("giant:int-width-1");
        }
    }
    rep.nontrivial(mix(0x61a7, mix(kind as u64 % 3, extra as u64)));
    Ok(())
}

/// lengths around word boundaries are what matters for the tail invariant
fn len_of(f: u16) -> usize {
    const EDGES: [usize; 16] = [0, 1, 2, 31, 32, 33, 63, 64, 65, 127, 128, 129, 191, 192, 193, 256];
    if f % 3 == 0 {
        EDGES[(f as usize / 3) % EDGES.len()]
    } else {
        (f as usize) % 700
    }
}

fn mask(w: usize) -> u64 {
    if w >= 64 {
        !0
    } else {
        (1u64 << w) - 1
    }
}

fn ser<T: SdsSerialize>(x: &T) -> Vec<u8> {
    let mut v = Vec::new();
    x.serialize(&mut v).expect("serialize into a Vec cannot fail");
    v
}

/// Observable state of a raw vector must equal the model; a vector rebuilt from the model by another route must be indistinguishable.
fn check_raw(rv: &RawVector, model: &Bits, step: usize, op: &str, deep: bool) -> Result<(), Fail> {
    ensure_eq!(rv.len(), model.len, "RawVector.len", "len() after step {} ({})", step, op);
    ensure_eq!(rv.is_empty(), model.len == 0, "RawVector.is_empty", "is_empty() after step {} ({})", step, op);
    let words: &[u64] = rv.as_ref();
    ensure_eq!(words.len(), (model.len + 63) / 64, "RawVector.words", "number of backing words after step {} ({})", step, op);
    for (i, (&got, &want)) in words.iter().zip(model.words.iter()).enumerate() {
        ensure!(got == want, "RawVector.content", "word {} is {:#018x}, reference says {:#018x} (len {}) after step {} ({}); bits beyond len must be zero and bits below must match", i, got, want, model.len, step, op);
    }
    ensure_eq!(rv.count_ones(), model.count_ones(), "RawVector.count_ones", "count_ones() after step {} ({})", step, op);
    if deep {
        for i in 0..model.len {
            ensure_eq!(rv.bit(i), model.get(i), "RawVector.bit", "bit({}) after step {} ({})", i, step, op);
        }
        for i in 0..words.len() {
            ensure_eq!(rv.word(i), model.words[i], "RawVector.word", "word({}) after step {} ({})", i, step, op);
            ensure_eq!(unsafe { rv.word_unchecked(i) }, model.words[i], "RawVector.word_unchecked", "word_unchecked({})", i);
        }
        // canonical: equal to a vector built differently from the same content
        let mut fresh = RawVector::new();
        for i in 0..model.len {
            fresh.push_bit(model.get(i));
        }
        ensure!(*rv == fresh, "RawVector.eq", "vector != vector rebuilt by push_bit from the same {} bits after step {} ({})", model.len, step, op);
        let mut fresh2 = RawVector::with_len(model.len, false);
        for p in model.positions() {
            fresh2.set_bit(p, true);
        }
        ensure!(*rv == fresh2, "RawVector.eq", "vector != vector rebuilt by with_len+set_bit after step {} ({})", step, op);
        ensure!(ser(rv) == ser(&fresh), "RawVector.serialize", "serialization differs from that of an equal-content vector after step {} ({})", step, op);
        ensure_eq!(rv.size_in_elements(), RawVector::size_by_params(model.len), "RawVector.size_by_params", "size_by_params({})", model.len);
        ensure_eq!(rv.clone().complement().complement() == *rv, true, "RawVector.complement", "double complement after step {}", step);
    }
    Ok(())
}

#[derive(Default)]
pub struct RawStats {
    pub shrunk_with_ones: bool,
    pub regrown: bool,
    pub cross_word: bool,
}

/// Apply one operation to the vector and to the model; the operation's own return value is checked here.
pub fn step_raw(rv: &mut RawVector, model: &mut Bits, op: &RawOp, step: usize, st: &mut RawStats) -> Result<(), Fail> {
    match op {
        RawOp::PushBit(b) => {
            rv.push_bit(*b);
            model.push(*b);
            st.regrown |= st.shrunk_with_ones;
        }
        RawOp::PushInt(v, w) => {
            let w = *w as usize % 65;
            let old = model.len;
            unsafe { rv.push_int(*v, w) };
            model.resize(old + w, false);
            model.write(old, *v, w);
            if w > 0 && old / 64 != (old + w - 1) / 64 {
                st.cross_word = true;
            }
            st.regrown |= st.shrunk_with_ones && w > 0;
        }
        RawOp::PopBit => {
            let had_ones = model.count_ones() > 0;
            let got = rv.pop_bit();
            let want = model.pop();
            ensure_eq!(got, want, "RawVector.pop_bit", "pop_bit() at step {}", step);
            st.shrunk_with_ones |= had_ones && want.is_some();
        }
        RawOp::PopInt(w) => {
            let w = *w as usize % 65;
            let got = unsafe { rv.pop_int(w) };
            if model.len >= w {
                let want = model.read(model.len - w, w);
                ensure_eq!(got, Some(want), "RawVector.pop_int", "pop_int({}) at step {}", w, step);
                if w > 0 {
                    st.shrunk_with_ones |= want != 0;
                    if (model.len - w) / 64 != (model.len - 1) / 64 {
                        st.cross_word = true;
                    }
                }
                let nl = model.len - w;
                model.resize(nl, false);
            } else {
                ensure_eq!(got, None, "RawVector.pop_int", "pop_int({}) on a vector of {} bits at step {}", w, model.len, step);
            }
        }
        RawOp::SetBit(f, b) => {
            if model.len > 0 {
                let i = frac(*f, model.len - 1);
                rv.set_bit(i, *b);
                model.set(i, *b);
                ensure_eq!(rv.bit(i), *b, "RawVector.set_bit", "bit({}) right after set_bit", i);
            }
        }
        RawOp::SetInt(f, v, w) => {
            let w = (*w as usize % 65).min(model.len);
            if w > 0 {
                let off = frac(*f, model.len - w);
                unsafe { rv.set_int(off, *v, w) };
                model.write(off, *v, w);
                ensure_eq!(unsafe { rv.int(off, w) }, *v & mask(w), "RawVector.int", "int({}, {}) right after set_int", off, w);
                if off / 64 != (off + w - 1) / 64 {
                    st.cross_word = true;
                }
            } else {
                // a field of width 0 is empty: writing it changes nothing (the full state comparison follows), reading it gives 0
                let off = frac(*f, model.len);
                unsafe { rv.set_int(off, *v, 0) };
                ensure_eq!(unsafe { rv.int(off, 0) }, 0, "RawVector.int", "int({}, 0)", off);
            }
            ensure!(rv.is_mutable(), "RawVector.is_mutable", "a raw vector is mutable");
        }
        RawOp::Resize(f, b) => {
            let nl = len_of(*f);
            if nl < model.len {
                st.shrunk_with_ones |= model.count_ones() > 0;
            } else if nl > model.len {
                st.regrown |= st.shrunk_with_ones;
            }
            rv.resize(nl, *b);
            model.resize(nl, *b);
        }
        RawOp::Clear => {
            st.shrunk_with_ones |= model.count_ones() > 0;
            rv.clear();
            *model = Bits::zeros(0);
        }
        RawOp::Reserve(a) => {
            // capacity is not part of the property (and reserve() is observed not to always reach len + additional,
            // see DESIGN.md observation O3): only the content must be unaffected
            rv.reserve(*a as usize % 5000);
        }
        RawOp::Complement => {
            *rv = rv.complement();
            *model = model.complement();
        }
        RawOp::WithLen(f, b) => {
            let nl = len_of(*f);
            *rv = RawVector::with_len(nl, *b);
            *model = Bits::filled(nl, *b);
        }
        RawOp::WithCapacity(c) => {
            *rv = RawVector::with_capacity(*c as usize);
            *model = Bits::zeros(0);
        }
        RawOp::Clone => {
            // clone(), or clone_from() onto a vector with other content (nothing of the target may survive)
            let c = if model.len % 2 == 0 {
                rv.clone()
            } else {
                let mut t = RawVector::with_len(model.len / 2 + 67, true);
                t.clone_from(rv);
                t
            };
            ensure!(c == *rv, "RawVector.clone", "clone / clone_from != original");
            *rv = c;
        }
    }
    Ok(())
}

/// A raw vector produced by an operation history, with its reference content.
pub fn raw_by_history(ops: &[RawOp]) -> Result<(RawVector, Bits), Fail> {
    let mut rv = RawVector::new();
    let mut model = Bits::zeros(0);
    let mut st = RawStats::default();
    for (k, op) in ops.iter().enumerate() {
        step_raw(&mut rv, &mut model, op, k + 1, &mut st)?;
    }
    Ok((rv, model))
}

fn run_raw(ops: &[RawOp], rep: &mut Report) -> Result<(), Fail> {
    let mut rv = RawVector::new();
    let mut model = Bits::zeros(0);
    let mut st = RawStats::default();
    check_raw(&rv, &model, 0, "new", true)?;
    for (k, op) in ops.iter().enumerate() {
        let step = k + 1;
        let name = format!("{:?}", op);
        step_raw(&mut rv, &mut model, op, step, &mut st)?;
        // reads within the vector
        if model.len > 0 {
            let i = (k * 7919) % model.len;
            ensure_eq!(rv.bit(i), model.get(i), "RawVector.bit", "bit({}) after step {} ({})", i, step, name);
            let w = ((k * 31) % 64 + 1).min(model.len);
            let off = (k * 104729) % (model.len - w + 1);
            ensure_eq!(unsafe { rv.int(off, w) }, model.read(off, w), "RawVector.int", "int({}, {}) after step {} ({})", off, w, step, name);
        }
        ensure_eq!(unsafe { rv.int(model.len, 0) }, 0, "RawVector.int", "zero-width read");
        check_raw(&rv, &model, step, &name, model.len <= 300 || step == ops.len())?;
    }
    rep.class_if(st.cross_word, "raw:cross-word-field");
    rep.class_if(st.shrunk_with_ones && st.regrown, "raw:shrink-then-grow");
    if st.shrunk_with_ones && st.regrown {
        rep.nontrivial(hash_of(&ops));
    }
    rep.class("raw");
    Ok(())
}

#[derive(Clone, Debug)]
pub struct IntModel {
    pub width: usize,
    pub items: Vec<u64>,
}

fn packed(model: &IntModel) -> Bits {
    let mut b = Bits::zeros(model.items.len() * model.width);
    for (i, &v) in model.items.iter().enumerate() {
        b.write(i * model.width, v, model.width);
    }
    b
}

fn check_int(iv: &IntVector, model: &IntModel, step: usize, op: &str, deep: bool) -> Result<(), Fail> {
    ensure_eq!(iv.len(), model.items.len(), "IntVector.len", "len() after step {} ({})", step, op);
    ensure_eq!(iv.width(), model.width, "IntVector.width", "width() after step {} ({})", step, op);
    ensure_eq!(iv.is_empty(), model.items.is_empty(), "IntVector.is_empty", "is_empty() after step {} ({})", step, op);
    ensure_eq!(iv.max_len(), usize::MAX / model.width, "IntVector.max_len", "max_len()");
    ensure!(iv.is_mutable(), "IntVector.is_mutable", "is_mutable()");
    let raw: &RawVector = iv.as_ref();
    let bits = packed(model);
    ensure_eq!(raw.len(), bits.len, "IntVector.raw", "bit length of the underlying raw vector after step {} ({})", step, op);
    let words: &[u64] = raw.as_ref();
    ensure_eq!(words.len(), bits.words.len(), "IntVector.raw", "backing words after step {} ({})", step, op);
    for (i, (&got, &want)) in words.iter().zip(bits.words.iter()).enumerate() {
        ensure!(got == want, "IntVector.content", "word {} is {:#018x}, reference says {:#018x} (len {} width {}) after step {} ({})", i, got, want, model.items.len(), model.width, step, op);
    }
    ensure_eq!(raw.count_ones(), bits.count_ones(), "IntVector.count_ones", "count_ones of the raw data after step {} ({})", step, op);
    if deep {
        for (i, &v) in model.items.iter().enumerate() {
            ensure_eq!(iv.get(i), v, "IntVector.get", "get({}) after step {} ({})", i, step, op);
            ensure_eq!(iv.get_or(i, !v), v, "IntVector.get_or", "get_or({}) inside", i);
        }
        for i in [model.items.len(), model.items.len() + 1, usize::MAX] {
            ensure_eq!(iv.get_or(i, 77), 77, "IntVector.get_or", "get_or({}) past the end", i);
        }
        let collected: Vec<u64> = iv.iter().collect();
        ensure!(collected == model.items, "IntVector.iter", "iter() != reference after step {} ({})", step, op);
        ensure_eq!(iv.iter().len(), model.items.len(), "IntVector.iter", "iter().len()");
        let collected: Vec<u64> = iv.clone().into_iter().collect();
        ensure!(collected == model.items, "IntVector.into_iter", "into_iter() != reference after step {} ({})", step, op);
        let mut fresh = IntVector::new(model.width).expect("valid width");
        for &v in &model.items {
            fresh.push(v);
        }
        ensure!(*iv == fresh, "IntVector.eq", "vector != vector rebuilt by push from the same {} items of width {} after step {} ({})", model.items.len(), model.width, step, op);
        ensure!(ser(iv) == ser(&fresh), "IntVector.serialize", "serialization differs from that of an equal-content vector after step {} ({})", step, op);
        let mut fresh2 = IntVector::with_len(model.items.len(), model.width, 0).expect("valid width");
        for (i, &v) in model.items.iter().enumerate() {
            fresh2.set(i, v);
        }
        ensure!(*iv == fresh2, "IntVector.eq", "vector != vector rebuilt by with_len+set after step {} ({})", step, op);
        ensure_eq!(iv.size_in_elements(), IntVector::size_by_params(model.items.len(), model.width), "IntVector.size_by_params", "size_by_params({}, {})", model.items.len(), model.width);
        let as_raw = RawVector::from(iv.clone());
        ensure!(as_raw == *raw, "IntVector.into_raw", "RawVector::from(vector) != as_ref()");
    }
    Ok(())
}

fn typed_width(t: u8) -> usize {
    match t % 5 {
        0 => 8,
        1 => 16,
        2 => 32,
        _ => 64,
    }
}

fn from_vec(t: u8, vals: &[u64]) -> IntVector {
    match t % 5 {
        0 => IntVector::from(vals.iter().map(|&v| v as u8).collect::<Vec<u8>>()),
        1 => IntVector::from(vals.iter().map(|&v| v as u16).collect::<Vec<u16>>()),
        2 => IntVector::from(vals.iter().map(|&v| v as u32).collect::<Vec<u32>>()),
        3 => IntVector::from(vals.to_vec()),
        _ => IntVector::from(vals.iter().map(|&v| v as usize).collect::<Vec<usize>>()),
    }
}

fn collect(t: u8, vals: &[u64]) -> IntVector {
    match t % 5 {
        0 => vals.iter().map(|&v| v as u8).collect::<IntVector>(),
        1 => vals.iter().map(|&v| v as u16).filter(|_| true).collect::<IntVector>(),
        2 => vals.iter().map(|&v| v as u32).collect::<IntVector>(),
        3 => vals.iter().copied().filter(|_| true).collect::<IntVector>(),
        _ => vals.iter().map(|&v| v as usize).collect::<IntVector>(),
    }
}

fn extend(iv: &mut IntVector, t: u8, vals: &[u64]) {
    // every other call passes an iterator whose size hint is (len, Some(len + 2^56)): a legal iterator, only the lower bound
    // may be relied on for reserving space
    if vals.len() % 2 == 1 {
        let loose = || vals.iter().copied().chain((0..(1u64 << 56)).take_while(|_| false));
        match t % 5 {
            0 => iv.extend(loose().map(|v| v as u8)),
            1 => iv.extend(loose().map(|v| v as u16)),
            2 => iv.extend(loose().map(|v| v as u32)),
            3 => iv.extend(loose()),
            _ => iv.extend(loose().map(|v| v as usize)),
        }
        return;
    }
    match t % 5 {
        0 => iv.extend(vals.iter().map(|&v| v as u8)),
        1 => iv.extend(vals.iter().map(|&v| v as u16)),
        2 => iv.extend(vals.iter().map(|&v| v as u32)),
        3 => iv.extend(vals.iter().copied()),
        _ => iv.extend(vals.iter().map(|&v| v as usize)),
    }
}

fn typed(t: u8, v: u64) -> u64 {
    match t % 5 {
        0 => v as u8 as u64,
        1 => v as u16 as u64,
        2 => v as u32 as u64,
        _ => v,
    }
}

#[derive(Default)]
pub struct IntStats {
    pub shrunk: bool,
    pub regrown: bool,
    pub set_then_pack: bool,
    pub did_set: bool,
    pub wide_value: bool,
}

pub fn step_int(iv: &mut IntVector, model: &mut IntModel, op: &IntOp, step: usize, st: &mut IntStats) -> Result<(), Fail> {
    match op {
        IntOp::New(w) => {
            let w = (*w as usize % 64) + 1;
            *iv = IntVector::new(w).expect("valid width");
            *model = IntModel { width: w, items: Vec::new() };
        }
        IntOp::WithLen(f, w, v) => {
            let w = (*w as usize % 64) + 1;
            let n = len_of(*f) % 300;
            *iv = IntVector::with_len(n, w, *v).expect("valid width");
            *model = IntModel { width: w, items: vec![*v & mask(w); n] };
            st.wide_value |= *v != *v & mask(w);
        }
        IntOp::WithCapacity(c, w) => {
            let w = (*w as usize % 64) + 1;
            *iv = IntVector::with_capacity(*c as usize % 3000, w).expect("valid width");
            *model = IntModel { width: w, items: Vec::new() };
        }
        IntOp::Default => {
            *iv = IntVector::default();
            *model = IntModel { width: 64, items: Vec::new() };
        }
        IntOp::FromVec(t, vals) => {
            *iv = from_vec(*t, vals);
            *model = IntModel { width: typed_width(*t), items: vals.iter().map(|&v| typed(*t, v)).collect() };
        }
        IntOp::Collect(t, vals) => {
            *iv = collect(*t, vals);
            *model = IntModel { width: typed_width(*t), items: vals.iter().map(|&v| typed(*t, v)).collect() };
        }
        IntOp::Push(v) => {
            iv.push(*v);
            model.items.push(*v & mask(model.width));
            st.wide_value |= *v != *v & mask(model.width);
            st.regrown |= st.shrunk;
        }
        IntOp::Pop => {
            let got = iv.pop();
            let want = model.items.pop();
            ensure_eq!(got, want, "IntVector.pop", "pop() at step {}", step);
            st.shrunk |= want.map(|v| v != 0).unwrap_or(false);
        }
        IntOp::Set(f, v) => {
            if !model.items.is_empty() {
                let i = frac(*f, model.items.len() - 1);
                iv.set(i, *v);
                model.items[i] = *v & mask(model.width);
                st.wide_value |= *v != *v & mask(model.width);
                st.did_set = true;
                ensure_eq!(iv.get(i), *v & mask(model.width), "IntVector.set", "get({}) right after set", i);
            }
        }
        IntOp::Resize(f, v) => {
            let n = len_of(*f) % 300;
            if n < model.items.len() {
                st.shrunk |= model.items[n..].iter().any(|&x| x != 0);
            } else if n > model.items.len() {
                st.regrown |= st.shrunk;
                st.wide_value |= *v != *v & mask(model.width);
            }
            iv.resize(n, *v);
            model.items.resize(n, *v & mask(model.width));
        }
        IntOp::Clear => {
            st.shrunk |= model.items.iter().any(|&x| x != 0);
            iv.clear();
            model.items.clear();
        }
        IntOp::Reserve(a) => {
            iv.reserve(*a as usize % 2000);
        }
        IntOp::Pack => {
            iv.pack();
            if let Some(&max) = model.items.iter().max() {
                model.width = bit_len(max);
                st.set_then_pack |= st.did_set;
            }
        }
        IntOp::Extend(t, vals) => {
            extend(iv, *t, vals);
            for &v in vals {
                let tv = typed(*t, v);
                model.items.push(tv & mask(model.width));
                st.wide_value |= tv != tv & mask(model.width);
            }
            st.regrown |= st.shrunk && !vals.is_empty();
        }
        IntOp::Clone => {
            let c = if iv.len() % 2 == 0 {
                iv.clone()
            } else {
                let mut t = IntVector::with_len(iv.len() / 2 + 3, (iv.width() % 64) + 1, 1).expect("IntVector::with_len");
                t.clone_from(iv);
                t
            };
            ensure!(c == *iv, "IntVector.clone", "clone / clone_from != original");
            *iv = c;
        }
    }
    Ok(())
}

/// An integer vector produced by an operation history, with its reference (width, items).
pub fn int_by_history(ops: &[IntOp]) -> Result<(IntVector, IntModel), Fail> {
    let mut iv = IntVector::default();
    let mut model = IntModel { width: 64, items: Vec::new() };
    let mut st = IntStats::default();
    for (k, op) in ops.iter().enumerate() {
        step_int(&mut iv, &mut model, op, k + 1, &mut st)?;
    }
    Ok((iv, model))
}

fn run_int(ops: &[IntOp], rep: &mut Report) -> Result<(), Fail> {
    let mut iv = IntVector::default();
    let mut model = IntModel { width: 64, items: Vec::new() };
    check_int(&iv, &model, 0, "default", true)?;
    let mut st = IntStats::default();
    for (k, op) in ops.iter().enumerate() {
        let step = k + 1;
        let name = format!("{:?}", op);
        step_int(&mut iv, &mut model, op, step, &mut st)?;
        if !model.items.is_empty() {
            let i = (k * 7919) % model.items.len();
            ensure_eq!(iv.get(i), model.items[i], "IntVector.get", "get({}) after step {} ({})", i, step, name);
        }
        check_int(&iv, &model, step, &name, model.items.len() <= 80 || step == ops.len())?;
    }
    rep.class(&format!("int:width:{}", model.width));
    rep.class_if(st.shrunk && st.regrown, "int:shrink-then-grow");
    rep.class_if(st.set_then_pack, "int:pack-after-set");
    rep.class_if(st.wide_value, "int:value-wider-than-width");
    if (st.shrunk && st.regrown) || st.set_then_pack {
        rep.nontrivial(hash_of(&ops));
    }
    rep.class("int");
    Ok(())
}

fn value() -> BoxedStrategy<u64> {
    prop_oneof![3 => any::<u64>(), 1 => Just(!0u64), 1 => Just(0u64), 1 => 0u64..4, 1 => (0u32..64).prop_map(|k| 1u64 << k), 1 => (0u32..64).prop_map(|k| (1u64 << k) - 1)].boxed()
}

pub fn raw_op() -> BoxedStrategy<RawOp> {
    prop_oneof![
        4 => any::<bool>().prop_map(RawOp::PushBit),
        6 => (value(), 0u8..65).prop_map(|(v, w)| RawOp::PushInt(v, w)),
        3 => Just(RawOp::PopBit),
        5 => (0u8..65).prop_map(RawOp::PopInt),
        2 => (any::<u16>(), any::<bool>()).prop_map(|(f, b)| RawOp::SetBit(f, b)),
        3 => (any::<u16>(), value(), 0u8..65).prop_map(|(f, v, w)| RawOp::SetInt(f, v, w)),
        5 => (any::<u16>(), any::<bool>()).prop_map(|(f, b)| RawOp::Resize(f, b)),
        1 => Just(RawOp::Clear),
        1 => any::<u16>().prop_map(RawOp::Reserve),
        1 => Just(RawOp::Complement),
        1 => (any::<u16>(), any::<bool>()).prop_map(|(f, b)| RawOp::WithLen(f, b)),
        1 => any::<u16>().prop_map(RawOp::WithCapacity),
        1 => Just(RawOp::Clone),
    ]
    .boxed()
}

pub fn int_op() -> BoxedStrategy<IntOp> {
    let vals = proptest::collection::vec(value(), 0..12);
    prop_oneof![
        2 => any::<u8>().prop_map(IntOp::New),
        2 => (any::<u16>(), any::<u8>(), value()).prop_map(|(f, w, v)| IntOp::WithLen(f, w, v)),
        1 => (any::<u16>(), any::<u8>()).prop_map(|(c, w)| IntOp::WithCapacity(c, w)),
        1 => Just(IntOp::Default),
        1 => (0u8..5, vals.clone()).prop_map(|(t, v)| IntOp::FromVec(t, v)),
        1 => (0u8..5, vals.clone()).prop_map(|(t, v)| IntOp::Collect(t, v)),
        8 => value().prop_map(IntOp::Push),
        5 => Just(IntOp::Pop),
        4 => (any::<u16>(), value()).prop_map(|(f, v)| IntOp::Set(f, v)),
        4 => (any::<u16>(), value()).prop_map(|(f, v)| IntOp::Resize(f, v)),
        1 => Just(IntOp::Clear),
        1 => any::<u16>().prop_map(IntOp::Reserve),
        3 => Just(IntOp::Pack),
        2 => (0u8..5, vals).prop_map(|(t, v)| IntOp::Extend(t, v)),
        1 => Just(IntOp::Clone),
    ]
    .boxed()
}

impl Prop for C05 {
    type Case = Case;
    const ID: &'static str = "C05";
    const RULE: &'static str = "operation histories (0..60 ops quick, 0..400 thorough) over RawVector (push_bit, push_int/pop_int/set_int with widths 0..64 and values wider than the field, pop_bit, set_bit, resize up/down with both fill values, clear, reserve, complement, with_len, with_capacity, clone) and IntVector (new/with_len/with_capacity/default/From<Vec<T>>/collect for all five item types, push, pop, set, resize with varying fill, clear, reserve, pack, extend, clone) interpreted against a Vec<bool> / (width, Vec<u64>) model; after EVERY step: length, every backing word (content below len, zero bits beyond), count_ones, reads; equality and byte-identical serialization with vectors rebuilt from the model by two other routes. Plus 3 (quick) / 9 (thorough) vectors of 2^32 + k bits or one-bit items per configuration (all ones; periodic words; IntVector of width 1) checked against closed formulas for len, count_ones, bits and words around 2^32, push/pop/resize/set and sizes. Non-trivial: a shrink that drops set bits followed by growth, or pack after set; distinct by history.";

    fn cases(tier: Tier) -> u32 {
        tier.pick(200_000, 2_000_000)
    }

    fn strategy(tier: Tier, _cfg: &str) -> BoxedStrategy<Case> {
        let max_ops = tier.pick(60usize, 400usize);
        prop_oneof![
            proptest::collection::vec(raw_op(), 0..max_ops).prop_map(Case::Raw),
            proptest::collection::vec(int_op(), 0..max_ops).prop_map(Case::Int),
        ]
        .boxed()
    }

    fn exhaustive(tier: Tier, shard: usize, nshards: usize, emit: &mut dyn FnMut(Case) -> bool) {
        // a handful of vectors beyond 2^32 bits (0.5 GiB each): one per shard at most, so that few are alive at once
        let count = tier.pick(3usize, 9usize);
        for k in 0..count {
            if k % nshards == shard {
                if !emit(Case::Giant(k as u8, (k as u32).wrapping_mul(0x9e37_79b9) >> 7, 1 + (k as u8).wrapping_mul(37))) {
                    return;
                }
            }
        }
    }

    fn sanitize(case: &mut Case) {
        // byte-decoded fuzzer inputs: no half-gigabyte vectors under ASan
        if matches!(case, Case::Giant(..)) {
            *case = Case::Raw(Vec::new());
        }
    }

    fn run(case: &Case) -> CaseResult {
        let mut rep = Report::new();
        match case {
            Case::Raw(ops) => run_raw(ops, &mut rep)?,
            Case::Int(ops) => run_int(ops, &mut rep)?,
            Case::Giant(kind, extra, period) => run_giant(*kind, *extra, *period, &mut rep)?,
        }
        Ok(rep)
    }

    fn health(classes: &BTreeMap<String, u64>, _tier: Tier) -> Result<(), String> {
        let widths = classes.keys().filter(|k| k.starts_with("int:width:")).count();
        if widths < 60 {
            return Err(format!("only {} distinct final item widths reached", widths));
        }
        for c in ["giant:raw-all-ones", "giant:raw-periodic", "giant:int-width-1", "raw:cross-word-field", "raw:shrink-then-grow", "int:shrink-then-grow", "int:pack-after-set", "int:value-wider-than-width"] {
            if classes.get(c).copied().unwrap_or(0) == 0 {
                return Err(format!("no generated case reached class {}", c));
            }
        }
        Ok(())
    }

    fn assumptions() -> Vec<String> {
        vec![
            "RawVector::set_bit/bit and the unsafe int/set_int/push_int/pop_int are called only within their documented contracts (positions below len, width <= 64)".into(),
            "vector lengths stay below ~25 000 bits / 300 items so that the state can be compared completely after every step; the vectors beyond 2^32 bits are periodic and compared with closed formulas at sampled positions".into(),
            "capacity() is not asserted: it is not part of the property".into(),
        ]
    }
}

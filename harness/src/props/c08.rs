//! C08 — the safe API never touches memory outside a structure's buffers.
//!
//! Programs over a small object heap are interpreted with ARBITRARY arguments. A step may return
//! anything or panic (caught); it must not trip a monitor: std's unsafe-precondition checks (every
//! `get_unchecked` / `from_raw_parts` is checked against the slice length in both build
//! configurations used here), a signal, or - in the fuzzing tier - AddressSanitizer.

use crate::engine::{catch, CaseResult, Fail, Prop, Report, Tier};
use crate::util::hash_of;
use proptest::prelude::*;
use serde::{Deserialize, Serialize};
use simple_sds::bit_vector::rank_support::RankSupport;
use simple_sds::bit_vector::select_support::SelectSupport;
use simple_sds::bit_vector::{BitVector, Complement, Identity, Transformation};
use simple_sds::bits;
use simple_sds::int_vector::{IntVector, IntVectorMapper};
use simple_sds::ops::{Access, BitVec, Pack, Pop, PredSucc, Push, Rank, Resize, Select, SelectZero, Vector, VectorIndex};
use simple_sds::raw_vector::{AccessRaw, PopRaw, PushRaw, RawVector, RawVectorMapper};
use simple_sds::rl_vector::{RLBuilder, RLVector};
use simple_sds::serialize::{MappedBytes, MappedOption, MappedSlice, MappedStr, MappingMode, MemoryMap, MemoryMapped, Serialize as Sds};
use simple_sds::sparse_vector::{SparseBuilder, SparseVector};
use simple_sds::wavelet_matrix::wm_core::WMCore;
use simple_sds::wavelet_matrix::WaveletMatrix;
use std::collections::BTreeMap;
use std::convert::TryFrom;

pub struct C08;

/// An argument resolved against the target structure at run time.
#[derive(Clone, Copy, Debug, Serialize, Deserialize, Hash, PartialEq, Eq)]
pub enum Arg {
    Lit(u16),
    /// len + d
    Len(i8),
    /// count_ones + d
    Ones(i8),
    /// count_zeros + d
    Zeros(i8),
    /// 2 * len
    Twice,
    /// 2^63 + d
    Pow63(i8),
    /// usize::MAX - d
    Max(u8),
    Any(u64),
}

impl Arg {
    pub fn res(self, len: usize, ones: usize) -> usize {
        let rel = |base: usize, d: i8| (base as i128 + d as i128).clamp(0, usize::MAX as i128) as usize;
        match self {
            Arg::Lit(v) => v as usize,
            Arg::Len(d) => rel(len, d),
            Arg::Ones(d) => rel(ones, d),
            Arg::Zeros(d) => rel(len.saturating_sub(ones), d),
            Arg::Twice => len.saturating_mul(2),
            Arg::Pow63(d) => rel(1usize << 63, d),
            Arg::Max(d) => usize::MAX - d as usize,
            Arg::Any(v) => v as usize,
        }
    }
    pub fn extreme(self, len: usize, ones: usize) -> bool {
        let v = self.res(len, ones);
        v >= len || v >= ones
    }
}

#[derive(Clone, Copy, Debug, Serialize, Deserialize, Hash, PartialEq, Eq)]
pub enum ItCall {
    Next,
    NextBack,
    Nth(Arg),
    NthBack(Arg),
    Len,
    Clone,
}

/// Which bitvector-like object a query step addresses.
#[derive(Clone, Copy, Debug, Serialize, Deserialize, Hash, PartialEq, Eq)]
pub enum Target {
    Plain,
    Sparse,
    Rl,
}

#[derive(Clone, Copy, Debug, Serialize, Deserialize, Hash, PartialEq, Eq)]
pub enum Query {
    Get,
    Rank,
    RankZero,
    Select,
    SelectZero,
    Predecessor,
    Successor,
}

#[derive(Clone, Copy, Debug, Serialize, Deserialize, Hash, PartialEq, Eq)]
pub enum ItKind {
    Bits,
    Ones,
    Zeros,
    SelectIter,
    SelectZeroIter,
    Predecessor,
    Successor,
    Runs,
}

#[derive(Clone, Debug, Serialize, Deserialize, Hash)]
pub enum Step {
    // raw vector
    RawWithLen(u16, bool),
    /// a long sparse (or, complemented, dense) vector with a leading empty zone: the only way into the long select
    /// superblock regime (needs more than 83 521 bits); (length class, leading zone in 1/256 of the length, mean gap, complement, seed)
    RawBig(u8, u8, u8, bool, u16),
    RawPushBit(bool),
    RawPushInt(u64, u8),
    RawPopBit,
    RawPopInt(u8),
    RawSetBit(Arg, bool),
    RawBit(Arg),
    RawWord(Arg),
    RawResize(u16, bool),
    RawClear,
    RawMisc,
    // integer vector
    IntNew(Arg),
    IntWithLen(u16, Arg, u64),
    IntPush(u64),
    IntPop,
    IntSet(Arg, u64),
    IntGet(Arg),
    IntResize(u16, u64),
    IntPack,
    IntIter(Vec<ItCall>),
    // plain bitvector
    MakePlain(bool),
    Enable(u8),
    // queries and iterators on any of the three types
    Query(Target, Query, Arg),
    Iter(Target, ItKind, Arg, Vec<ItCall>),
    /// use the rank/select support of the plain vector as it was some steps ago (possibly built for other bits) through the safe functions
    StaleSupport(Arg),
    // sparse
    SparseNew(Arg, u16, bool),
    SparseSet(Arg, bool),
    SparseExtend(Vec<Arg>),
    SparseFinish,
    SparseFromPlain,
    // run-length
    RlNew,
    RlTrySet(Arg, Arg),
    RlSetLen(Arg),
    RlFinish,
    RlFromPlain,
    // wavelet matrix and core
    WmNew(Vec<u16>),
    WmQuery(u8, Arg, Arg),
    CoreQuery(u8, Arg, Arg),
    // free functions
    Bits(u8, Arg, Arg),
    // serialization and memory maps
    Reload(u8),
    /// (mutable mapping, accesses, number of elements cut from the end of the file)
    Map(bool, Vec<(u8, Arg, Arg)>, u8),
    /// replace the plain bitvector by a conversion of the sparse vector (possibly a multiset) or the run-length vector; (source, copy_bit_vec instead of From)
    PlainFrom(bool, bool),
}

#[derive(Clone, Debug, Serialize, Deserialize, Hash)]
pub struct Case {
    pub steps: Vec<Step>,
}

#[derive(Default)]
struct Heap {
    raw: RawVector,
    int: Option<IntVector>,
    plain: Option<BitVector>,
    stale_rank: Option<RankSupport>,
    stale_select: Option<SelectSupport<Identity>>,
    stale_select_zero: Option<SelectSupport<Complement>>,
    sb: Option<SparseBuilder>,
    sparse: Option<SparseVector>,
    rb: Option<RLBuilder>,
    rl: Option<RLVector>,
    wm: Option<WaveletMatrix>,
    core: Option<WMCore>,
    extreme_calls: u64,
    panics: u64,
    calls: u64,
    /// a multiset sparse vector (count_ones > distinct positions) was converted into a plain bitvector
    multiset_to_plain: u64,
}

macro_rules! call {
    ($h:expr, $e:expr) => {{
        $h.calls += 1;
        if catch(|| {
            let _ = $e;
        })
        .is_err()
        {
            $h.panics += 1;
        }
    }};
}

macro_rules! drive {
    ($h:expr, $it:expr, $calls:expr, $len:expr, $ones:expr, double) => {{
        let h: &mut Heap = $h;
        h.calls += 1;
        let r = catch(|| {
            let mut it = $it;
            for c in $calls {
                match c {
                    ItCall::Next => {
                        let _ = it.next();
                    }
                    ItCall::NextBack => {
                        let _ = it.next_back();
                    }
                    ItCall::Nth(a) => {
                        let _ = it.nth(a.res($len, $ones));
                    }
                    ItCall::NthBack(a) => {
                        let _ = it.nth_back(a.res($len, $ones));
                    }
                    ItCall::Len => {
                        let _ = it.len();
                    }
                    ItCall::Clone => {
                        it = it.clone();
                    }
                }
            }
            // keep going a little after the script: trusting stale cursors is where overreads hide
            for _ in 0..3 {
                let _ = it.next();
                let _ = it.next_back();
            }
        });
        if r.is_err() {
            h.panics += 1;
        }
    }};
    ($h:expr, $it:expr, $calls:expr, $len:expr, $ones:expr, forward) => {{
        let h: &mut Heap = $h;
        h.calls += 1;
        let r = catch(|| {
            let mut it = $it;
            for c in $calls {
                match c {
                    ItCall::Next | ItCall::NextBack => {
                        let _ = it.next();
                    }
                    ItCall::Nth(a) | ItCall::NthBack(a) => {
                        // forward-only iterators use the default O(k) nth: keep k bounded by what the structure can yield
                        let k = a.res($len, $ones).min($len.saturating_add(3)).min(200_000);
                        let _ = it.nth(k);
                    }
                    ItCall::Len => {
                        let _ = it.size_hint();
                    }
                    ItCall::Clone => {
                        it = it.clone();
                    }
                }
            }
            for _ in 0..3 {
                let _ = it.next();
            }
        });
        if r.is_err() {
            h.panics += 1;
        }
    }};
}

fn query<'a, T>(h_calls: &mut (u64, u64), bv: &'a T, q: Query, v: usize)
where
    T: BitVec<'a> + Rank<'a> + Select<'a> + SelectZero<'a> + PredSucc<'a>,
{
    h_calls.0 += 1;
    let r = catch(|| match q {
        Query::Get => {
            let _ = bv.get(v);
        }
        Query::Rank => {
            let _ = bv.rank(v);
        }
        Query::RankZero => {
            let _ = bv.rank_zero(v);
        }
        Query::Select => {
            let _ = bv.select(v);
        }
        Query::SelectZero => {
            let _ = bv.select_zero(v);
        }
        Query::Predecessor => {
            let _ = bv.predecessor(v).next();
        }
        Query::Successor => {
            let _ = bv.successor(v).next();
        }
    });
    if r.is_err() {
        h_calls.1 += 1;
    }
}

/// A mapped view must lie inside the map: a view larger than the map reads foreign memory without any monitor noticing.
fn view_inside(kind: &str, offset: usize, map_offset: usize, map_len: usize, total: usize) -> Result<(), Fail> {
    if map_offset != offset || map_offset.checked_add(map_len).map(|e| e > total).unwrap_or(true) {
        return Err(Fail::new(format!("mapped-view-outside-map.{}", kind), format!("{} created at offset {} reports map_offset {} and map_len {} in a map of {} elements", kind, offset, map_offset, map_len, total)));
    }
    Ok(())
}

fn run_step(h: &mut Heap, step: &Step, scratch_key: u64) -> Result<(), Fail> {
    match step {
        Step::RawWithLen(n, b) => h.raw = RawVector::with_len(*n as usize, *b),
        Step::RawBig(class, lead, gap, complement, seed) => {
            let len = [90_000usize, 131_073, 200_000, 300_000][*class as usize % 4] + *seed as usize % 1000;
            let mut raw = RawVector::with_len(len, *complement);
            let mut rng = crate::util::SplitMix::new(*seed as u64);
            let mut pos = len * (*lead as usize) / 256;
            let mean = 20 + (*gap as u64 % 100);
            while pos < len {
                raw.set_bit(pos, !*complement);
                pos += rng.geometric(mean) as usize;
            }
            h.raw = raw;
        }
        Step::RawPushBit(b) => h.raw.push_bit(*b),
        Step::RawPushInt(v, w) => unsafe { h.raw.push_int(*v, *w as usize % 65) },
        Step::RawPopBit => call!(h, h.raw.pop_bit()),
        Step::RawPopInt(w) => call!(h, unsafe { h.raw.pop_int(*w as usize % 65) }),
        Step::RawSetBit(a, b) => {
            let i = a.res(h.raw.len(), h.raw.count_ones());
            if i >= h.raw.len() {
                h.extreme_calls += 1;
            }
            call!(h, h.raw.set_bit(i, *b));
        }
        Step::RawBit(a) => {
            let i = a.res(h.raw.len(), h.raw.count_ones());
            if i >= h.raw.len() {
                h.extreme_calls += 1;
            }
            call!(h, h.raw.bit(i));
        }
        Step::RawWord(a) => {
            let i = a.res(h.raw.len(), h.raw.count_ones());
            h.extreme_calls += 1;
            call!(h, h.raw.word(i));
        }
        Step::RawResize(n, b) => h.raw.resize(*n as usize, *b),
        Step::RawClear => h.raw.clear(),
        Step::RawMisc => {
            call!(h, h.raw.count_ones());
            call!(h, h.raw.complement());
            call!(h, h.raw.reserve(1000));
        }
        Step::IntNew(w) => {
            let w = w.res(64, 64);
            h.int = IntVector::new(w).ok().or(h.int.take());
        }
        Step::IntWithLen(n, w, v) => {
            let w = w.res(64, 64);
            h.int = IntVector::with_len(*n as usize % 3000, w, *v).ok().or(h.int.take());
        }
        Step::IntPush(v) => {
            if let Some(iv) = h.int.as_mut() {
                if iv.len() < 5000 {
                    iv.push(*v);
                }
            }
        }
        Step::IntPop => {
            if let Some(iv) = h.int.as_mut() {
                let _ = iv.pop();
            }
        }
        Step::IntSet(a, v) => {
            if let Some(mut iv) = h.int.take() {
                let i = a.res(iv.len(), iv.len());
                if i >= iv.len() {
                    h.extreme_calls += 1;
                }
                call!(h, iv.set(i, *v));
                h.int = Some(iv);
            }
        }
        Step::IntGet(a) => {
            if let Some(iv) = h.int.take() {
                let i = a.res(iv.len(), iv.len());
                if i >= iv.len() {
                    h.extreme_calls += 1;
                }
                call!(h, iv.get(i));
                call!(h, iv.get_or(i, 7));
                h.int = Some(iv);
            }
        }
        Step::IntResize(n, v) => {
            if let Some(iv) = h.int.as_mut() {
                iv.resize(*n as usize % 3000, *v);
            }
        }
        Step::IntPack => {
            if let Some(iv) = h.int.as_mut() {
                iv.pack();
            }
        }
        Step::IntIter(calls) => {
            if let Some(iv) = h.int.take() {
                let n = iv.len();
                drive!(h, iv.iter(), calls, n, n, double);
                drive!(h, iv.clone().into_iter(), calls, n, n, forward);
                h.int = Some(iv);
            }
        }
        Step::MakePlain(from_iter) => {
            // keep the old supports around: they can later be used with the new vector through the safe functions
            if let Some(old) = h.plain.take() {
                let mut old = old;
                old.enable_rank();
                old.enable_select();
                old.enable_select_zero();
                h.stale_rank = Some(RankSupport::new(&old));
                h.stale_select = Some(SelectSupport::<Identity>::new(&old));
                h.stale_select_zero = Some(SelectSupport::<Complement>::new(&old));
            }
            let bv = if *from_iter { (0..h.raw.len()).map(|i| h.raw.bit(i)).collect::<BitVector>() } else { BitVector::from(h.raw.clone()) };
            h.plain = Some(bv);
        }
        Step::Enable(w) => {
            if let Some(bv) = h.plain.as_mut() {
                crate::props::c01::enable(bv, *w);
            }
        }
        Step::Query(t, q, a) => {
            let mut counters = (0u64, 0u64);
            match t {
                Target::Plain => {
                    if let Some(bv) = h.plain.as_ref() {
                        let v = a.res(bv.len(), bv.count_ones());
                        if a.extreme(bv.len(), bv.count_ones()) && bv.len() > 0 {
                            h.extreme_calls += 1;
                        }
                        query(&mut counters, bv, *q, v);
                    }
                }
                Target::Sparse => {
                    if let Some(bv) = h.sparse.as_ref() {
                        let v = a.res(bv.len(), bv.count_ones());
                        if a.extreme(bv.len(), bv.count_ones()) && bv.len() > 0 {
                            h.extreme_calls += 1;
                        }
                        query(&mut counters, bv, *q, v);
                    }
                }
                Target::Rl => {
                    if let Some(bv) = h.rl.as_ref() {
                        let v = a.res(bv.len(), bv.count_ones());
                        if a.extreme(bv.len(), bv.count_ones()) && bv.len() > 0 {
                            h.extreme_calls += 1;
                        }
                        query(&mut counters, bv, *q, v);
                    }
                }
            }
            h.calls += counters.0;
            h.panics += counters.1;
        }
        Step::Iter(t, k, a, calls) => {
            if calls.iter().any(|c| matches!(c, ItCall::Nth(_) | ItCall::NthBack(_))) {
                h.extreme_calls += 1;
            }
            match t {
                Target::Plain => {
                    if let Some(bv) = h.plain.take() {
                        let (n, m) = (bv.len(), bv.count_ones());
                        let v = a.res(n, m);
                        match k {
                            ItKind::Bits | ItKind::Runs => drive!(h, bv.iter(), calls, n, m, double),
                            ItKind::Ones => drive!(h, bv.one_iter(), calls, n, m, double),
                            ItKind::Zeros => drive!(h, bv.zero_iter(), calls, n, m, double),
                            ItKind::SelectIter => drive!(h, bv.select_iter(v), calls, n, m, double),
                            ItKind::SelectZeroIter => drive!(h, bv.select_zero_iter(v), calls, n, m, double),
                            ItKind::Predecessor => drive!(h, bv.predecessor(v), calls, n, m, double),
                            ItKind::Successor => drive!(h, bv.successor(v), calls, n, m, double),
                        }
                        h.plain = Some(bv);
                    }
                }
                Target::Sparse => {
                    if let Some(bv) = h.sparse.take() {
                        let (n, m) = (bv.len(), bv.count_ones());
                        let v = a.res(n, m);
                        // unary-coded iteration is O(universe) for the bit iterator: only drive it on small universes
                        match k {
                            ItKind::Bits | ItKind::Runs => {
                                if n <= 100_000 {
                                    drive!(h, bv.iter(), calls, n, m, double)
                                }
                            }
                            ItKind::Ones => drive!(h, bv.one_iter(), calls, n, m, double),
                            ItKind::Zeros => drive!(h, bv.zero_iter(), calls, n, m, forward),
                            ItKind::SelectIter => drive!(h, bv.select_iter(v), calls, n, m, double),
                            ItKind::SelectZeroIter => drive!(h, bv.select_zero_iter(v), calls, n, m, forward),
                            ItKind::Predecessor => drive!(h, bv.predecessor(v), calls, n, m, double),
                            ItKind::Successor => drive!(h, bv.successor(v), calls, n, m, double),
                        }
                        h.sparse = Some(bv);
                    }
                }
                Target::Rl => {
                    if let Some(bv) = h.rl.take() {
                        let (n, m) = (bv.len(), bv.count_ones());
                        let v = a.res(n, m);
                        match k {
                            ItKind::Bits => drive!(h, bv.iter(), calls, n, m, forward),
                            ItKind::Ones => drive!(h, bv.one_iter(), calls, n, m, forward),
                            ItKind::Zeros => drive!(h, bv.zero_iter(), calls, n, m, forward),
                            ItKind::SelectIter => drive!(h, bv.select_iter(v), calls, n, m, forward),
                            ItKind::SelectZeroIter => drive!(h, bv.select_zero_iter(v), calls, n, m, forward),
                            ItKind::Predecessor => drive!(h, bv.predecessor(v), calls, n, m, forward),
                            ItKind::Successor => drive!(h, bv.successor(v), calls, n, m, forward),
                            ItKind::Runs => drive!(h, bv.run_iter(), calls, n, m, forward),
                        }
                        h.rl = Some(bv);
                    }
                }
            }
        }
        Step::PlainFrom(from_rl, copy) => {
            let converted = if *from_rl {
                h.rl.as_ref().filter(|v| v.len() <= 2_000_000).map(|v| catch(|| if *copy { BitVector::copy_bit_vec(v) } else { BitVector::from(v.clone()) }))
            } else {
                h.sparse.as_ref().filter(|v| v.len() <= 2_000_000).map(|v| catch(|| if *copy { BitVector::copy_bit_vec(v) } else { BitVector::from(v.clone()) }))
            };
            h.calls += 1;
            if !*from_rl && converted.is_some() {
                if let Some(sv) = h.sparse.as_ref() {
                    if sv.is_multiset() {
                        h.multiset_to_plain += 1;
                    }
                }
            }
            match converted {
                Some(Ok(mut bv)) => {
                    // the converted vector is used at once: all set bits from both ends, then with freshly built supports
                    call!(h, bv.one_iter().count());
                    call!(h, bv.one_iter().rev().take(70).count());
                    call!(h, bv.zero_iter().take(70).count());
                    call!(h, bv.enable_select());
                    call!(h, bv.enable_select_zero());
                    call!(h, (bv.select(bv.count_ones().saturating_sub(1)), bv.select_zero(bv.len().saturating_sub(bv.count_ones()).saturating_sub(1))));
                    h.plain = Some(bv)
                }
                Some(Err(_)) => h.panics += 1,
                None => {}
            }
        }
        Step::StaleSupport(a) => {
            if let Some(bv) = h.plain.take() {
                let v = a.res(bv.len(), bv.count_ones());
                h.extreme_calls += 1;
                // the public building blocks of the supports, with any argument
                call!(h, <Identity as Transformation>::word(&bv, v));
                call!(h, <Complement as Transformation>::word(&bv, v));
                call!(h, <Identity as Transformation>::bit(&bv, v));
                call!(h, <Complement as Transformation>::bit(&bv, v));
                call!(h, <Identity as Transformation>::count_ones(&bv));
                call!(h, <Complement as Transformation>::count_ones(&bv));
                if bv.len() <= 100_000 {
                    // supports built for this very vector, asked for any rank / index
                    let r = catch(|| (RankSupport::new(&bv), SelectSupport::<Identity>::new(&bv), SelectSupport::<Complement>::new(&bv)));
                    h.calls += 1;
                    match r {
                        Ok((rs, s1, s0)) => {
                            call!(h, rs.rank(&bv, v));
                            call!(h, s1.select(&bv, v));
                            call!(h, s0.select(&bv, v));
                            call!(h, (s1.superblocks(), s1.long_superblocks(), s1.short_superblocks(), s0.superblocks()));
                        }
                        Err(_) => h.panics += 1,
                    }
                }
                if let Some(rs) = h.stale_rank.take() {
                    call!(h, rs.rank(&bv, v));
                    call!(h, rs.blocks());
                    h.stale_rank = Some(rs);
                }
                if let Some(ss) = h.stale_select.take() {
                    call!(h, ss.select(&bv, v));
                    h.stale_select = Some(ss);
                }
                if let Some(ss) = h.stale_select_zero.take() {
                    call!(h, ss.select(&bv, v));
                    h.stale_select_zero = Some(ss);
                }
                h.plain = Some(bv);
            }
        }
        Step::SparseNew(n, m, multi) => {
            let m = *m as usize % 400;
            let mut n = n.res(h.raw.len(), m);
            if m == 0 && n > (1 << 22) {
                n = 1 << 22; // an empty set spends n/2 bits on buckets
            }
            if *multi {
                if m <= n || n <= (1 << 22) {
                    h.sb = Some(SparseBuilder::multiset(n, m));
                }
            } else {
                h.sb = SparseBuilder::new(n, m).ok().or(h.sb.take());
            }
        }
        Step::SparseSet(a, try_) => {
            if let Some(mut b) = h.sb.take() {
                let i = a.res(b.universe(), b.next_index());
                if i >= b.universe() || i < b.next_index() {
                    h.extreme_calls += 1;
                }
                if *try_ {
                    call!(h, b.try_set(i));
                } else {
                    call!(h, b.set(i));
                }
                h.sb = Some(b);
            }
        }
        Step::SparseExtend(args) => {
            if let Some(mut b) = h.sb.take() {
                let (u, nx) = (b.universe(), b.next_index());
                let items: Vec<usize> = args.iter().map(|a| a.res(u, nx)).collect();
                call!(h, b.extend(items.iter().copied()));
                h.sb = Some(b);
            }
        }
        Step::SparseFinish => {
            if let Some(mut b) = h.sb.take() {
                // fill up with valid positions so that a vector results
                while !b.is_full() && b.next_index() < b.universe() {
                    let i = b.next_index();
                    if b.try_set(i).is_err() {
                        break;
                    }
                }
                if let Ok(sv) = SparseVector::try_from(b) {
                    h.sparse = Some(sv);
                }
            }
        }
        Step::SparseFromPlain => {
            if let Some(bv) = h.plain.as_ref() {
                // conversions are documented for sets: the plain vector's one_iter yields count_ones() positions
                if bv.len() <= 200_000 {
                    let r = catch(|| SparseVector::copy_bit_vec(bv));
                    if let Ok(sv) = r {
                        h.sparse = Some(sv);
                    }
                }
            }
        }
        Step::RlNew => h.rb = Some(RLBuilder::new()),
        Step::RlTrySet(s, l) => {
            if let Some(mut b) = h.rb.take() {
                let start = s.res(b.len(), b.count_ones());
                let len = l.res(b.len(), b.count_ones());
                if start < b.len() || len > 1 << 32 {
                    h.extreme_calls += 1;
                }
                call!(h, b.try_set(start, len));
                h.rb = Some(b);
            }
        }
        Step::RlSetLen(a) => {
            if let Some(b) = h.rb.as_mut() {
                let n = a.res(b.len(), b.count_ones());
                b.set_len(n);
            }
        }
        Step::RlFinish => {
            if let Some(b) = h.rb.take() {
                let r = catch(|| RLVector::from(b));
                if let Ok(v) = r {
                    h.rl = Some(v);
                }
            }
        }
        Step::RlFromPlain => {
            if let Some(bv) = h.plain.as_ref() {
                if bv.len() <= 200_000 {
                    let r = catch(|| RLVector::copy_bit_vec(bv));
                    if let Ok(v) = r {
                        h.rl = Some(v);
                    }
                }
            }
        }
        Step::WmNew(vals) => {
            let v: Vec<u64> = vals.iter().map(|&x| (x % 5000) as u64).collect();
            h.core = Some(WMCore::from(v.clone()));
            h.wm = Some(WaveletMatrix::from(v));
        }
        Step::WmQuery(which, a, b) => {
            if let Some(wm) = h.wm.take() {
                let n = wm.len();
                let (x, y) = (a.res(n, n), b.res(n, n));
                if x >= n {
                    h.extreme_calls += 1;
                }
                match which % 9 {
                    0 => call!(h, wm.get(x)),
                    1 => call!(h, wm.rank(x, y as u64)),
                    2 => call!(h, wm.select(x, y as u64)),
                    3 => call!(h, wm.inverse_select(x)),
                    4 => call!(h, wm.contains(x as u64)),
                    5 => call!(h, wm.predecessor(x, y as u64).next()),
                    6 => call!(h, wm.successor(x, y as u64).next()),
                    7 => call!(h, wm.select_iter(x, y as u64).take(3).count()),
                    _ => call!(h, wm.get_or(x, 1)),
                }
                h.wm = Some(wm);
            }
        }
        Step::CoreQuery(which, a, b) => {
            if let Some(core) = h.core.take() {
                let n = core.len();
                let (x, y) = (a.res(n, n), b.res(n, n));
                h.extreme_calls += 1;
                match which % 4 {
                    0 => call!(h, core.map_down(x)),
                    1 => call!(h, core.map_down_with(x, y as u64)),
                    2 => call!(h, core.map_up_with(x, y as u64)),
                    _ => call!(h, core.map_down_with_two_positions(x, y, x as u64)),
                }
                h.core = Some(core);
            }
        }
        Step::Bits(which, a, b) => {
            let (x, y) = (a.res(64, 64), b.res(64, 64));
            h.extreme_calls += 1;
            match which % 12 {
                0 => call!(h, bits::low_set(x)),
                1 => call!(h, bits::high_set(x)),
                2 => call!(h, bits::bit_len(x as u64)),
                3 => call!(h, bits::reverse_low(x as u64, y)),
                4 => call!(h, bits::div_round_up(x, y)),
                5 => call!(h, bits::bits_to_words(x)),
                6 => call!(h, bits::words_to_bits(x)),
                7 => call!(h, bits::bytes_to_words(x)),
                8 => call!(h, bits::round_up_to_word_bits(x)),
                9 => call!(h, bits::bit_offset(x, y)),
                10 => call!(h, bits::split_offset(x)),
                _ => call!(h, bits::words_to_bytes(x)),
            }
        }
        Step::Reload(which) => {
            // bytes the library itself wrote
            macro_rules! reload {
                ($slot:expr, $t:ty) => {
                    if let Some(v) = $slot.take() {
                        let mut bytes: Vec<u8> = Vec::new();
                        let _ = v.serialize(&mut bytes);
                        match <$t>::load(&mut std::io::Cursor::new(&bytes[..])) {
                            Ok(l) => $slot = Some(l),
                            Err(_) => $slot = Some(v),
                        }
                    }
                };
            }
            {
                // a byte vector written by the library has the layout of a string: loading it as one gives Err or valid UTF-8
                let w: &[u64] = h.raw.as_ref();
                let raw_bytes: Vec<u8> = w.iter().flat_map(|x| x.to_le_bytes()).take((w.len() * 8).saturating_sub(*which as usize % 8)).collect();
                let mut ser: Vec<u8> = Vec::new();
                let _ = Sds::serialize(&raw_bytes, &mut ser);
                h.calls += 1;
                if let Ok(sl) = String::load(&mut std::io::Cursor::new(&ser[..])) {
                    if std::str::from_utf8(sl.as_bytes()).is_err() {
                        return Err(Fail::new("invalid-utf8-string", format!("String::load returned a String of {} bytes that is not valid UTF-8 (from a byte vector written by the library)", sl.len())));
                    }
                    let _ = sl.chars().count();
                }
            }
            match which % 6 {
                0 => reload!(h.plain, BitVector),
                1 => reload!(h.sparse, SparseVector),
                2 => reload!(h.rl, RLVector),
                3 => reload!(h.wm, WaveletMatrix),
                4 => reload!(h.core, WMCore),
                _ => reload!(h.int, IntVector),
            }
        }
        Step::Map(mutable, accesses, cut) => {
            // file: Vec<u64> (the raw words), RawVector, IntVector (if any), bytes, string, Option<RawVector>, absent option
            let words: Vec<u64> = {
                let w: &[u64] = h.raw.as_ref();
                w.to_vec()
            };
            let mut file: Vec<u8> = Vec::new();
            let mut offsets: Vec<usize> = Vec::new();
            let push = |f: &mut Vec<u8>, offsets: &mut Vec<usize>| offsets.push(f.len() / 8);
            push(&mut file, &mut offsets);
            let _ = Sds::serialize(&words, &mut file);
            push(&mut file, &mut offsets);
            let _ = h.raw.serialize(&mut file);
            push(&mut file, &mut offsets);
            let iv = h.int.clone().unwrap_or_default();
            let _ = iv.serialize(&mut file);
            push(&mut file, &mut offsets);
            let bytes: Vec<u8> = words.iter().flat_map(|w| w.to_le_bytes()).take(words.len() * 8 - (words.len() * 3) % 8).collect();
            let _ = Sds::serialize(&bytes, &mut file);
            push(&mut file, &mut offsets);
            let _ = Sds::serialize(&String::from("memory mapped ✓"), &mut file);
            push(&mut file, &mut offsets);
            let _ = Some(h.raw.clone()).serialize(&mut file);
            push(&mut file, &mut offsets);
            let _ = None::<RawVector>.serialize(&mut file);
            // optionally cut the file short: views of the structures that lose their end must be refused (or at least stay inside the map)
            // (one case in four keeps the file complete, otherwise it is cut at an arbitrary element)
            if *cut % 4 != 0 {
                let keep = (file.len() / 8) * (*cut as usize) / 256;
                file.truncate(8 * keep.max(1));
            }
            let total = file.len() / 8;
            let path = std::env::temp_dir().join(format!("c08-{}-{:016x}", std::process::id(), scratch_key));
            if std::fs::write(&path, &file).is_err() {
                return Err(Fail::new("infra", "cannot write scratch file"));
            }
            let result = (|| -> Result<(), Fail> {
                let map = match MemoryMap::new(&path, if *mutable { MappingMode::Mutable } else { MappingMode::ReadOnly }) {
                    Ok(m) => m,
                    Err(_) => return Ok(()),
                };
                for (what, off, idx) in accesses {
                    // structure starts, or offsets outside the file (a mid-structure offset is foreign data for the type)
                    let o = {
                        let v = off.res(total, offsets.len());
                        if v >= total {
                            v
                        } else {
                            offsets[v % offsets.len()]
                        }
                    };
                    if o >= total {
                        h.extreme_calls += 1;
                    }
                    // the expected structure kind is known from the layout, whether or not the cut file still contains all of it
                    let slot = offsets.iter().position(|&x| x == o);
                    h.calls += 1;
                    let r = catch(|| -> Result<(), Fail> {
                        match what % 7 {
                            0 if slot == Some(0) || o >= total => {
                                if let Ok(v) = MappedSlice::<u64>::new(&map, o) {
                                    view_inside("MappedSlice<u64>", o, v.map_offset(), v.map_len(), total)?;
                                    let i = idx.res(v.len(), v.len());
                                    let _ = catch(|| v[i]);
                                    let _ = v.iter().count();
                                }
                            }
                            1 if slot == Some(1) || o >= total => {
                                if let Ok(v) = RawVectorMapper::new(&map, o) {
                                    view_inside("RawVectorMapper", o, v.map_offset(), v.map_len(), total)?;
                                    let i = idx.res(v.len(), v.len());
                                    let _ = catch(|| v.bit(i));
                                    let _ = catch(|| v.word(i));
                                    let _ = v.count_ones();
                                    // the (unimplemented, panicking) safe write of a read-only view
                                    let mut v = v;
                                    let _ = catch(move || v.set_bit(i, true));
                                }
                            }
                            2 if slot == Some(2) || o >= total => {
                                if let Ok(v) = IntVectorMapper::new(&map, o) {
                                    view_inside("IntVectorMapper", o, v.map_offset(), v.map_len(), total)?;
                                    let i = idx.res(v.len(), v.len());
                                    let _ = catch(|| v.get(i));
                                    let _ = v.get_or(i, 3);
                                    let _ = v.iter().count();
                                }
                            }
                            3 if slot == Some(3) || o >= total => {
                                if let Ok(v) = MappedBytes::new(&map, o) {
                                    view_inside("MappedBytes", o, v.map_offset(), v.map_len(), total)?;
                                    let i = idx.res(v.len(), v.len());
                                    let _ = catch(|| v[i]);
                                    let _ = v.iter().map(|b| *b as usize).sum::<usize>();
                                }
                                // the same bytes viewed as a string (identical layout): refused, or a valid str
                                if let Ok(v) = MappedStr::new(&map, o) {
                                    view_inside("MappedStr(over bytes)", o, v.map_offset(), v.map_len(), total)?;
                                    let st: &str = v.as_ref();
                                    if std::str::from_utf8(st.as_bytes()).is_err() {
                                        return Err(Fail::new("invalid-utf8-str", format!("MappedStr::new created a str of {} bytes that is not valid UTF-8 (over a byte vector written by the library)", st.len())));
                                    }
                                    let _ = st.chars().count();
                                }
                            }
                            4 if slot == Some(4) || o >= total => {
                                if let Ok(v) = MappedStr::new(&map, o) {
                                    view_inside("MappedStr", o, v.map_offset(), v.map_len(), total)?;
                                    let _ = v.chars().count();
                                }
                            }
                            5 | 6 if slot == Some(5) || slot == Some(6) || o >= total => {
                                if let Ok(v) = MappedOption::<RawVectorMapper>::new(&map, o) {
                                    view_inside("MappedOption<RawVectorMapper>", o, v.map_offset(), v.map_len(), total)?;
                                    if let Some(inner) = v.as_ref() {
                                        view_inside("RawVectorMapper(in option)", o + 1, inner.map_offset(), inner.map_len(), total)?;
                                        let i = idx.res(inner.len(), inner.len());
                                        let _ = catch(|| inner.bit(i));
                                    }
                                    // unwrap() of an absent option panics, of a present one gives the same view
                                    let _ = catch(|| v.unwrap().len());
                                    let _ = (v.is_some(), v.is_none());
                                }
                            }
                            _ => {}
                        }
                        Ok(())
                    });
                    match r {
                        Ok(Ok(())) => {}
                        Ok(Err(f)) => return Err(f),
                        Err(_) => h.panics += 1,
                    }
                }
                Ok(())
            })();
            let _ = std::fs::remove_file(&path);
            result?;
        }
    }
    Ok(())
}

fn arg() -> BoxedStrategy<Arg> {
    prop_oneof![
        4 => (0u16..300).prop_map(Arg::Lit),
        1 => any::<u16>().prop_map(Arg::Lit),
        4 => (-3i8..=3).prop_map(Arg::Len),
        3 => (-3i8..=3).prop_map(Arg::Ones),
        2 => (-3i8..=3).prop_map(Arg::Zeros),
        1 => Just(Arg::Twice),
        1 => (-2i8..=2).prop_map(Arg::Pow63),
        3 => (0u8..4).prop_map(Arg::Max),
        1 => any::<u64>().prop_map(Arg::Any),
    ]
    .boxed()
}

fn it_calls() -> BoxedStrategy<Vec<ItCall>> {
    proptest::collection::vec(prop_oneof![4 => Just(ItCall::Next), 4 => Just(ItCall::NextBack), 3 => arg().prop_map(ItCall::Nth), 3 => arg().prop_map(ItCall::NthBack), 1 => Just(ItCall::Len), 1 => Just(ItCall::Clone)], 0..8).boxed()
}

pub fn step_strategy() -> BoxedStrategy<Step> {
    let target = prop_oneof![Just(Target::Plain), Just(Target::Sparse), Just(Target::Rl)];
    let q = prop_oneof![Just(Query::Get), Just(Query::Rank), Just(Query::RankZero), Just(Query::Select), Just(Query::SelectZero), Just(Query::Predecessor), Just(Query::Successor)];
    let ik = prop_oneof![Just(ItKind::Bits), Just(ItKind::Ones), Just(ItKind::Zeros), Just(ItKind::SelectIter), Just(ItKind::SelectZeroIter), Just(ItKind::Predecessor), Just(ItKind::Successor), Just(ItKind::Runs)];
    let len = prop_oneof![3 => 0u16..200, 2 => prop_oneof![Just(63u16), Just(64), Just(65), Just(127), Just(128), Just(512), Just(4096)], 1 => 0u16..5000, 1 => Just(u16::MAX)];
    prop_oneof![
        3 => (len.clone(), any::<bool>()).prop_map(|(n, b)| Step::RawWithLen(n, b)),
        1 => (any::<u8>(), any::<u8>(), any::<u8>(), any::<bool>(), any::<u16>()).prop_map(|(c, l, g, k, s)| Step::RawBig(c, l, g, k, s)),
        3 => any::<bool>().prop_map(Step::RawPushBit),
        3 => (any::<u64>(), 0u8..65).prop_map(|(v, w)| Step::RawPushInt(v, w)),
        1 => Just(Step::RawPopBit),
        2 => (0u8..65).prop_map(Step::RawPopInt),
        3 => (arg(), any::<bool>()).prop_map(|(a, b)| Step::RawSetBit(a, b)),
        1 => arg().prop_map(Step::RawBit),
        1 => arg().prop_map(Step::RawWord),
        2 => (len.clone(), any::<bool>()).prop_map(|(n, b)| Step::RawResize(n, b)),
        1 => Just(Step::RawClear),
        1 => Just(Step::RawMisc),
        1 => arg().prop_map(Step::IntNew),
        1 => (len, arg(), any::<u64>()).prop_map(|(n, w, v)| Step::IntWithLen(n, w, v)),
        2 => any::<u64>().prop_map(Step::IntPush),
        1 => Just(Step::IntPop),
        1 => (arg(), any::<u64>()).prop_map(|(a, v)| Step::IntSet(a, v)),
        1 => arg().prop_map(Step::IntGet),
        1 => (0u16..300, any::<u64>()).prop_map(|(n, v)| Step::IntResize(n, v)),
        1 => Just(Step::IntPack),
        1 => it_calls().prop_map(Step::IntIter),
        5 => any::<bool>().prop_map(Step::MakePlain),
        5 => (0u8..4).prop_map(Step::Enable),
        10 => (target.clone(), q, arg()).prop_map(|(t, q, a)| Step::Query(t, q, a)),
        10 => (target, ik, arg(), it_calls()).prop_map(|(t, k, a, c)| Step::Iter(t, k, a, c)),
        1 => arg().prop_map(Step::StaleSupport),
        2 => (arg(), 0u16..60, any::<bool>()).prop_map(|(n, m, multi)| Step::SparseNew(n, m, multi)),
        3 => (arg(), any::<bool>()).prop_map(|(a, t)| Step::SparseSet(a, t)),
        1 => proptest::collection::vec(arg(), 0..5).prop_map(Step::SparseExtend),
        2 => Just(Step::SparseFinish),
        2 => Just(Step::SparseFromPlain),
        1 => Just(Step::RlNew),
        3 => (arg(), arg()).prop_map(|(s, l)| Step::RlTrySet(s, l)),
        1 => arg().prop_map(Step::RlSetLen),
        2 => Just(Step::RlFinish),
        2 => Just(Step::RlFromPlain),
        1 => proptest::collection::vec(any::<u16>(), 0..60).prop_map(Step::WmNew),
        3 => (any::<u8>(), arg(), arg()).prop_map(|(w, a, b)| Step::WmQuery(w, a, b)),
        2 => (any::<u8>(), arg(), arg()).prop_map(|(w, a, b)| Step::CoreQuery(w, a, b)),
        1 => (any::<u8>(), arg(), arg()).prop_map(|(w, a, b)| Step::Bits(w, a, b)),
        2 => any::<u8>().prop_map(Step::Reload),
        2 => (any::<bool>(), proptest::collection::vec((any::<u8>(), arg(), arg()), 0..6), any::<u8>()).prop_map(|(m, a, c)| Step::Map(m, a, c)),
        2 => (any::<bool>(), any::<bool>()).prop_map(|(r, c)| Step::PlainFrom(r, c)),
    ]
    .boxed()
}

pub fn run_program(case: &Case) -> Result<(u64, u64, u64, u64), Fail> {
    let mut h = Heap::default();
    let key = hash_of(case);
    for (k, step) in case.steps.iter().enumerate() {
        // steps that are not wrapped individually may panic as well (e.g. an allocation-free constructor): treat uniformly
        let r = catch(|| run_step(&mut h, step, key ^ k as u64));
        match r {
            Ok(Ok(())) => {}
            Ok(Err(f)) => return Err(f),
            Err(_) => {
                h.panics += 1;
            }
        }
    }
    Ok((h.calls, h.panics, h.extreme_calls, h.multiset_to_plain))
}

impl Prop for C08 {
    type Case = Case;
    const ID: &'static str = "C08";
    const ISOLATE: bool = true;
    const RULE: &'static str = "programs of 0..40 steps over a heap of objects (raw vector, integer vector, plain bitvector with any supports, sparse builder/vector incl. multisets, run-length builder/vector, wavelet matrix and core, stale and fresh support structures used through their public functions (RankSupport::rank, SelectSupport::<Identity|Complement>::select, Transformation::word/bit), plain vectors obtained by converting sparse (also multiset) and run-length vectors, a memory-mapped file of seven structures), every safe call with ARBITRARY arguments: offsets anywhere incl. the tail of the last word, indexes/ranks/values from {small, len+-3, count+-3, 2*len, 2^63+-2, MAX-3..MAX, any u64}, iterators driven by next/next_back/nth/nth_back/len/clone scripts and then a few calls more, builders with arbitrary call sequences, serialize->load of the library's own bytes, mapped views at structure starts and outside the file. A step may return anything or panic; the process must survive: std's unsafe-precondition checks (exact to the slice length) are compiled in, the worker runs under release arithmetic in configuration relub and with overflow checks in chk, and mapped views must lie inside the map. Non-trivial: a program with at least one out-of-range / extreme argument on a structure; distinct by program.";

    fn cases(tier: Tier) -> u32 {
        tier.pick(40_000, 500_000)
    }

    fn strategy(_tier: Tier, _cfg: &str) -> BoxedStrategy<Case> {
        proptest::collection::vec(step_strategy(), 0..40).prop_map(|steps| Case { steps }).boxed()
    }

    fn run(case: &Case) -> CaseResult {
        let mut rep = Report::new();
        let (calls, panics, extreme, multiset_to_plain) = run_program(case)?;
        rep.class_if(multiset_to_plain > 0, "uses:multiset-converted-to-plain");
        rep.class_if(panics > 0, "program-with-caught-panics");
        rep.class_if(calls > 0, "program-with-calls");
        for s in &case.steps {
            match s {
                Step::Map(_, _, c) => {
                    rep.class("uses:memory-map");
                    rep.class_if(*c % 4 != 0, "uses:truncated-map");
                }
                Step::Iter(Target::Plain, _, _, _) => rep.class("uses:plain-iterators"),
                Step::Iter(Target::Sparse, _, _, _) => rep.class("uses:sparse-iterators"),
                Step::Iter(Target::Rl, _, _, _) => rep.class("uses:rl-iterators"),
                Step::StaleSupport(_) => rep.class("uses:stale-support"),
                Step::RawBig(_, _, _, _, _) => rep.class("uses:long-superblock-regime"),
                Step::Reload(_) => rep.class("uses:reload"),
                Step::PlainFrom(_, _) => rep.class("uses:plain-from-conversion"),
                Step::WmQuery(_, _, _) | Step::CoreQuery(_, _, _) => rep.class("uses:wavelet-matrix"),
                _ => {}
            }
        }
        rep.classes.sort();
        rep.classes.dedup();
        if extreme > 0 {
            rep.nontrivial(hash_of(case));
        }
        Ok(rep)
    }

    fn health(classes: &BTreeMap<String, u64>, _tier: Tier) -> Result<(), String> {
        for c in ["program-with-caught-panics", "uses:memory-map", "uses:truncated-map", "uses:plain-iterators", "uses:sparse-iterators", "uses:rl-iterators", "uses:stale-support", "uses:long-superblock-regime", "uses:reload", "uses:wavelet-matrix", "uses:plain-from-conversion", "uses:multiset-converted-to-plain"] {
            if classes.get(c).copied().unwrap_or(0) == 0 {
                return Err(format!("no generated case reached class {}", c));
            }
        }
        Ok(())
    }

    fn assumptions() -> Vec<String> {
        vec![
            "unsafe functions (push_int, pop_int, set_unchecked, ...) are called only within their documented safety contracts; everything else gets arbitrary arguments".into(),
            "the monitor is std's unsafe-precondition checking (debug assertions in the standard library's unchecked accessors, exact to the slice length) plus fatal signals; an access that stays inside a live slice is by definition inside the structure's buffer".into(),
            "allocation-sizing arguments are bounded (lengths <= 65535 bits / 5000 items, empty sparse universes <= 2^22): an allocation failure aborts the process and is reported as inconclusive".into(),
            "mapped views are requested at structure starts or outside the file only".into(),
            "forward-only iterators (default O(k) nth) get k bounded by the structure's length".into(),
        ]
    }
}

//! C07 — files follow the published serialization format in both directions.

use crate::anyval::{multiset_values, val_spec, Erased, Leaf, ValSpec};
use crate::docfmt::{self, Dec, Enc};
use crate::engine::{CaseResult, Fail, Prop, Report, Tier};
use crate::model::{check_bitvec, Bits, Model, Plan, RunModel, SetModel};
use crate::props::c03::{check_run_iter, packing};
use crate::props::c04::{self, VecModel};
use crate::props::c06::ser_bytes;
use crate::util::{bit_len, hash_of};
use crate::{ensure, ensure_eq};
use proptest::prelude::*;
use serde::{Deserialize, Serialize};
use simple_sds::bit_vector::BitVector;
use simple_sds::int_vector::IntVector;
use simple_sds::ops::{Rank, Select, SelectZero, Vector};
use simple_sds::raw_vector::RawVector;
use simple_sds::rl_vector::RLVector;
use simple_sds::sparse_vector::SparseVector;
use simple_sds::wavelet_matrix::wm_core::WMCore;
use simple_sds::wavelet_matrix::WaveletMatrix;
use std::collections::BTreeMap;

pub struct C07;

#[derive(Clone, Debug, Serialize, Deserialize, Hash)]
pub struct Case {
    pub spec: ValSpec,
    /// writer-side choice for the sparse low width (mapped into the admissible range)
    pub w_choice: u8,
    /// extra width of the run-length sample vector beyond the minimum (reader must accept it)
    pub slack: u8,
}

fn doc(e: Result<(), String>, what: &str) -> Result<(), Fail> {
    e.map_err(|m| Fail::new(format!("doc.{}", what), format!("the library's {} file violates SERIALIZATION.md: {}", what, m)))
}


/// "loads and answers all queries correctly": a structure with embedded support structures that was loaded from a file
/// with fewer of them need not be `==` to the original (the property does not say so), it must answer like it.
fn same_answers(loaded: &dyn Erased, x: &dyn Erased, rep: &mut Report, sig: &str, what: &str) -> Result<(), Fail> {
    let eq = loaded.eq_dyn(x);
    let probe = crate::engine::catch(|| loaded.probe()).map_err(|(loc, msg)| Fail::new(format!("{}.panic@{}", sig, loc), format!("{}: a query on the loaded structure panicked at {}: {}", what, loc, msg)))?;
    if probe != x.probe() {
        return Err(Fail::new(sig, format!("{} answers the query plan differently from the original (== is {})", what, eq)));
    }
    rep.class_if(!eq, "loaded-works-but-not-==-original");
    Ok(())
}

fn dres<T>(r: Result<T, String>, what: &str) -> Result<T, Fail> {
    r.map_err(|m| Fail::new(format!("doc.{}", what), format!("the library's {} file cannot be decoded from SERIALIZATION.md: {}", what, m)))
}

fn load_doc(x: &dyn Erased, elems: &[u64], what: &str) -> Result<Box<dyn Erased>, Fail> {
    let bytes = docfmt::to_bytes(elems);
    let mut cur = std::io::Cursor::new(&bytes[..]);
    let v = x.load_same(&mut cur).map_err(|e| Fail::new(format!("load-doc.{}", what), format!("a {} file written from SERIALIZATION.md alone (support structures absent) was rejected by load: {}", what, e)))?;
    if cur.position() as usize != bytes.len() {
        return Err(Fail::new(format!("load-doc.{}", what), format!("load consumed {} of {} bytes of a document-encoded {} file", cur.position(), bytes.len(), what)));
    }
    Ok(v)
}

fn bits_to_draw(b: &Bits) -> docfmt::DRaw {
    docfmt::DRaw { len: b.len, words: b.words.clone() }
}

fn mask(w: usize) -> u64 {
    if w >= 64 {
        !0
    } else {
        (1u64 << w) - 1
    }
}

fn check_plain_loaded(bv: &BitVector, bits: &Bits, what: &str) -> Result<(), Fail> {
    let mut bv = bv.clone();
    ensure!(!bv.supports_rank() && !bv.supports_select() && !bv.supports_select_zero(), "load-doc.supports", "{}: a file without support structures loaded with supports enabled", what);
    bv.enable_rank();
    bv.enable_select();
    bv.enable_select_zero();
    let model = SetModel::from_bits(bits);
    let plan = if bits.len <= 2000 { Plan::all(&model) } else { Plan::sampled(&model, 200, &[], &[], 100_000) };
    check_bitvec(&bv, &model, &plan, "BitVector(doc-encoded)")
}

impl Prop for C07 {
    type Case = Case;
    const ID: &'static str = "C07";
    const RULE: &'static str = "structures of every documented type (vectors, bytes, strings, optionals, raw/int vectors, bitvectors with all support subsets, sparse vectors incl. huge universes and multisets, run-length vectors, wavelet matrix core and matrix). Direction 1: the library's bytes are decoded by an independent codec written only from SERIALIZATION.md; content must equal the generator's model, every byte be consumed, and the document's requirements hold (zero padding / unused bits, word counts, bucket count, minimal widths, whole runs per block, greedy packing, no padding in a non-full final block, samples per block, maximal runs, `first` definition). Direction 2: the codec encodes the same content with supports absent and admissible writer choices (any sparse low width 1..63 with a bounded bucket array, any sufficient sample width); the library must load it and answer all queries per the reference models. Where the document leaves no choice the codec's bytes must equal the library's bytes with supports stripped. Non-trivial: >= 2 set bits / items / runs; distinct by library bytes.";

    fn cases(tier: Tier) -> u32 {
        tier.pick(12_000, 200_000)
    }

    fn strategy(tier: Tier, _cfg: &str) -> BoxedStrategy<Case> {
        let max_bits = tier.pick(20_000usize, 300_000usize);
        (val_spec(max_bits), any::<u8>(), prop_oneof![3 => Just(0u8), 1 => 0u8..12]).prop_map(|(mut spec, w_choice, slack)| {
            // plain (70%), None (5%), Some (25%)
            spec.opt = match w_choice % 20 { 0 => 1, 1..=5 => 2, _ => 0 };
            Case { spec, w_choice, slack }
        })
        .boxed()
    }

    fn run(case: &Case) -> CaseResult {
        let mut rep = Report::new();
        let x = case.spec.build();
        let lib_bytes = ser_bytes(x.as_ref());
        let lib = dres(docfmt::to_elements(&lib_bytes), "file")?;
        let opt = case.spec.opt % 3;
        rep.class(&case.spec.type_tag());
        // the optional wrapper: length prefix, then the structure
        let body: &[u64] = match opt {
            0 => &lib,
            1 => {
                ensure!(lib == vec![0u64], "doc.optional", "an absent optional structure must be the single element 0, file is {:?}", &lib[..lib.len().min(4)]);
                // an absent optional written from the document loads as None
                let loaded = load_doc(x.as_ref(), &[0u64], "optional")?;
                ensure!(loaded.eq_dyn(x.as_ref()), "load-doc.optional", "absent optional did not load as None");
                rep.class("optional:absent");
                return Ok(rep);
            }
            _ => {
                ensure!(lib.len() >= 1 && lib[0] as usize == lib.len() - 1, "doc.optional", "optional structure: length element {} but {} elements follow", lib.get(0).copied().unwrap_or(0), lib.len().saturating_sub(1));
                rep.class("optional:present");
                &lib[1..]
            }
        };
        // helper to wrap a document-encoded body like the library file
        let wrap = |e: Vec<u64>| -> Vec<u64> {
            if opt == 2 {
                let mut v = vec![e.len() as u64];
                v.extend(e);
                v
            } else {
                e
            }
        };
        let mut nontrivial = false;
        let mut d = Dec::new(body);
        match &case.spec.leaf {
            Leaf::Usize(v) | Leaf::U64(v) => {
                ensure_eq!(dres(d.elem(), "integer")?, *v, "doc.integer", "element value");
                let loaded = load_doc(x.as_ref(), &wrap(vec![*v]), "integer")?;
                ensure!(loaded.eq_dyn(x.as_ref()), "load-doc.integer", "integer differs");
            }
            Leaf::Pair(a, b) => {
                ensure_eq!((dres(d.elem(), "pair")?, dres(d.elem(), "pair")?), (*a, *b), "doc.pair", "pair elements");
            }
            Leaf::VecU64(v) | Leaf::VecUsize(v) => {
                ensure!(dres(d.vec_elems(), "vector")? == *v, "doc.vector", "vector items differ");
                let mut e = Enc::new();
                e.vec_elems(v);
                ensure!(e.e == body, "bytes.vector", "document encoding of the vector differs from the library's bytes");
                let loaded = load_doc(x.as_ref(), &wrap(e.e), "vector")?;
                ensure!(loaded.eq_dyn(x.as_ref()), "load-doc.vector", "vector differs after loading a document-encoded file");
                nontrivial = v.len() >= 2;
            }
            Leaf::VecPair(v) => {
                ensure!(dres(d.vec_pairs(), "vector")? == *v, "doc.vector", "vector of pairs differs");
                nontrivial = v.len() >= 2;
            }
            Leaf::Bytes(v) => {
                ensure!(dres(d.bytes(), "byte vector")? == *v, "doc.bytes", "bytes differ");
                let mut e = Enc::new();
                e.bytes(v);
                ensure!(e.e == body, "bytes.bytes", "document encoding of the byte vector differs from the library's bytes");
                let loaded = load_doc(x.as_ref(), &wrap(e.e), "byte vector")?;
                ensure!(loaded.eq_dyn(x.as_ref()), "load-doc.bytes", "byte vector differs after loading a document-encoded file");
                nontrivial = v.len() >= 2;
                rep.class_if(v.len() % 8 != 0, "bytes:padded");
            }
            Leaf::Str(s) => {
                ensure!(dres(d.string(), "string")? == *s, "doc.string", "string differs");
                let mut e = Enc::new();
                e.bytes(s.as_bytes());
                ensure!(e.e == body, "bytes.string", "document encoding of the string differs from the library's bytes");
                let loaded = load_doc(x.as_ref(), &wrap(e.e), "string")?;
                ensure!(loaded.eq_dyn(x.as_ref()), "load-doc.string", "string differs after loading a document-encoded file");
                nontrivial = s.len() >= 2;
                rep.class_if(s.len() % 8 != 0, "bytes:padded");
            }
            Leaf::Raw(_) | Leaf::RawHist(_) => {
                let bits = match &case.spec.leaf {
                    Leaf::Raw(b) => b.expand(),
                    Leaf::RawHist(ops) => crate::props::c05::raw_by_history(ops)?.1,
                    _ => unreachable!(),
                };
                rep.class_if(matches!(case.spec.leaf, Leaf::RawHist(_)) && bits.len % 64 != 0, "raw:history+partial-word");
                let got = dres(d.raw(), "raw bitvector")?;
                ensure!(got == bits_to_draw(&bits), "doc.raw", "raw bitvector content differs from the model ({} bits)", bits.len);
                let mut e = Enc::new();
                e.raw(&bits_to_draw(&bits));
                ensure!(e.e == body, "bytes.raw", "document encoding of the raw bitvector differs from the library's bytes");
                let loaded = load_doc(x.as_ref(), &wrap(e.e), "raw bitvector")?;
                ensure!(loaded.eq_dyn(x.as_ref()), "load-doc.raw", "raw bitvector differs after loading a document-encoded file");
                nontrivial = bits.count_ones() >= 2;
            }
            Leaf::Int(_, _) | Leaf::IntHist(_) => {
                let (width, want): (usize, Vec<u64>) = match &case.spec.leaf {
                    Leaf::Int(w, items) => {
                        let width = *w as usize % 64 + 1;
                        (width, items.iter().map(|&v| v & mask(width)).collect())
                    }
                    Leaf::IntHist(ops) => {
                        let m = crate::props::c05::int_by_history(ops)?.1;
                        (m.width, m.items)
                    }
                    _ => unreachable!(),
                };
                let items = &want;
                rep.class_if(matches!(case.spec.leaf, Leaf::IntHist(_)) && (width * want.len()) % 64 != 0, "int:history+partial-word");
                let got = dres(d.int(), "integer vector")?;
                ensure_eq!(got.width, width, "doc.int", "integer vector width");
                ensure!(got.items == want, "doc.int", "integer vector items differ from the model");
                let mut e = Enc::new();
                e.int(width, &want);
                ensure!(e.e == body, "bytes.int", "document encoding of the integer vector differs from the library's bytes");
                let loaded = load_doc(x.as_ref(), &wrap(e.e), "integer vector")?;
                ensure!(loaded.eq_dyn(x.as_ref()), "load-doc.int", "integer vector differs after loading a document-encoded file");
                nontrivial = items.len() >= 2;
            }
            Leaf::BV(b, m) => {
                let bits = b.expand();
                let got = dres(d.bitvector(), "bitvector")?;
                ensure!(got.raw == bits_to_draw(&bits), "doc.bitvector", "bitvector content differs from the model ({} bits)", bits.len);
                ensure_eq!(got.present, [m & 1 != 0, m & 2 != 0, m & 4 != 0], "doc.bitvector", "which optional support structures are present");
                let mut e = Enc::new();
                e.bitvector(&bits_to_draw(&bits));
                let stripped = dres(docfmt::strip_bv(body), "bitvector")?;
                ensure!(e.e == stripped, "bytes.bitvector", "document encoding of the bitvector differs from the library's bytes with supports stripped");
                let loaded = load_doc(x.as_ref(), &wrap(e.e), "bitvector")?;
                if opt == 0 {
                    let bv = loaded.as_any().downcast_ref::<BitVector>().expect("type");
                    check_plain_loaded(bv, &bits, "bitvector")?;
                }
                nontrivial = bits.count_ones() >= 2;
            }
            Leaf::RS(_) | Leaf::SS(_) | Leaf::SZ(_) => {
                // implementation-dependent support structures: the document does not describe them
                rep.class("support-structure(not in the document)");
                return Ok(rep);
            }
            Leaf::Sparse(_) | Leaf::SparseBig(_) | Leaf::SparseMulti(_, _) => {
                let (n, values, multi) = match &case.spec.leaf {
                    Leaf::Sparse(b) => {
                        let bits = b.expand();
                        (bits.len, bits.positions(), false)
                    }
                    Leaf::SparseBig(s) => (s.n, s.positions(), false),
                    Leaf::SparseMulti(u, incs) => {
                        let (n, v) = multiset_values(*u, incs);
                        (n, v, true)
                    }
                    _ => unreachable!(),
                };
                let got = dres(d.sparse(), "sparse bitvector")?;
                ensure_eq!(got.n, n, "doc.sparse", "universe size");
                ensure!(got.values == values, "doc.sparse", "decoded positions differ from the model (n={}, m={}, w={})", n, values.len(), got.w);
                ensure!(got.w >= 1 && got.w <= 63, "doc.sparse", "low width {} outside 1..=63", got.w);
                rep.class(&format!("sparse:w={}", got.w));
                // identical bytes for the library's own width
                let mut e = Enc::new();
                e.sparse(n, &values, got.w);
                let stripped = dres(docfmt::strip_sparse(body), "sparse bitvector")?;
                ensure!(e.e == stripped, "bytes.sparse", "document encoding (w={}) of the sparse bitvector differs from the library's bytes with supports stripped", got.w);
                if !multi {
                    // any admissible width: keep the bucket array small
                    let mut widths: Vec<usize> = vec![got.w];
                    let min_w = {
                        let mut w = 1usize;
                        while w < 63 && (n >> w) > (1usize << 19) {
                            w += 1;
                        }
                        w
                    };
                    let pick = min_w + (case.w_choice as usize % (64 - min_w));
                    widths.push(pick.min(63));
                    widths.push(min_w);
                    widths.push(63);
                    widths.sort_unstable();
                    widths.dedup();
                    let model = SetModel::new(n, values.clone());
                    for w in widths {
                        let mut e = Enc::new();
                        e.sparse(n, &values, w);
                        let loaded = load_doc(x.as_ref(), &wrap(e.e), "sparse bitvector")?;
                        if opt == 0 {
                            let sv = loaded.as_any().downcast_ref::<SparseVector>().expect("type");
                            let plan = crate::props::c02::sparse_plan(&model, &[case.w_choice as u64 * 0x0101_0101_0101_0101], 600);
                            check_bitvec(sv, &model, &plan, &format!("SparseVector(doc-encoded,w={})", w)).map_err(|mut f| {
                                f.sig = format!("load-doc.{}", f.sig);
                                f
                            })?;
                        }
                        rep.class(&format!("sparse-doc:w={}", w));
                    }
                    // the library's own file with a generated subset of the optional support structures kept
                    let keep = (case.w_choice ^ case.slack.rotate_left(3)) % 8;
                    let mixed = dres(docfmt::strip_sparse_masked(body, keep), "sparse bitvector")?;
                    let loaded = load_doc(x.as_ref(), &wrap(mixed), "sparse bitvector (subset of supports)")?;
                    same_answers(loaded.as_ref(), x.as_ref(), &mut rep, "load-doc.sparse-mixed", &format!("a sparse bitvector loaded from a file keeping supports {:03b} of its high part", keep))?;
                    if opt == 0 {
                        let sv = loaded.as_any().downcast_ref::<SparseVector>().expect("type");
                        let plan = crate::props::c02::sparse_plan(&model, &[case.slack as u64 * 0x0101_0101_0101_0101], 300);
                        check_bitvec(sv, &model, &plan, &format!("SparseVector(supports kept {:03b})", keep)).map_err(|mut f| {
                            f.sig = format!("load-doc.{}", f.sig);
                            f
                        })?;
                    }
                    rep.class(&format!("sparse-kept-supports:{:03b}", keep));
                }
                nontrivial = values.len() >= 2;
                rep.class_if(multi, "sparse:multiset");
            }
            Leaf::RL(shape, tail) => {
                let (runs, end) = shape.runs();
                let n = tail.map(|t| end.saturating_add(t.value())).unwrap_or(end);
                let model = RunModel::new(n, &runs);
                let got = dres(d.rl(), "run-length bitvector")?;
                ensure_eq!(got.n, n, "doc.rl", "length");
                ensure_eq!(got.ones, model.ones, "doc.rl", "number of set bits");
                ensure!(got.runs == model.runs, "doc.rl", "decoded runs differ from the model's maximal runs ({} vs {} runs)", got.runs.len(), model.runs.len());
                let (blocks, _, padded) = packing(&model.runs);
                ensure_eq!(got.blocks, blocks, "doc.rl", "number of blocks vs greedy packing");
                // minimal sample width: byte-identical
                let mut e = Enc::new();
                e.rl(n, &model.runs, 0);
                ensure!(e.e == body, "bytes.rl", "document encoding of the run-length bitvector differs from the library's bytes ({} runs, {} blocks)", model.runs.len(), blocks);
                for slack in [0usize, case.slack as usize] {
                    let mut e = Enc::new();
                    e.rl(n, &model.runs, slack);
                    let loaded = load_doc(x.as_ref(), &wrap(e.e), "run-length bitvector")?;
                    if opt == 0 {
                        let rl = loaded.as_any().downcast_ref::<RLVector>().expect("type");
                        let plan = crate::props::c03::rl_plan(&model, &[case.w_choice as u64 * 0x0101_0101_0101_0101], 600);
                        check_bitvec(rl, &model, &plan, "RLVector(doc-encoded)").map_err(|mut f| {
                            f.sig = format!("load-doc.{}", f.sig);
                            f
                        })?;
                        check_run_iter(rl, &model, 5000)?;
                    }
                }
                nontrivial = model.runs.len() >= 2;
                rep.class(match blocks {
                    0 => "rl:blocks=0",
                    1 => "rl:blocks=1",
                    2..=8 => "rl:blocks=2-8",
                    _ => "rl:blocks>=9",
                });
                rep.class_if(padded, "rl:padded-block");
                rep.class_if(case.slack > 0, "rl:sample-width-slack");
            }
            Leaf::Core(v) | Leaf::WM(v) => {
                let is_wm = matches!(case.spec.leaf, Leaf::WM(_));
                let vals: Vec<u64> = if is_wm { v.expand().into_iter().map(|x| x & 0xFFFF).collect() } else { v.expand() };
                let width = bit_len(vals.iter().copied().max().unwrap_or(0));
                let vm = VecModel::new(vals.clone());
                let dummy = c04::Case { vals: c04::Vals::Explicit(vec![]), src: 3, extra_vals: vec![case.w_choice as u64], extra_idx: vec![case.w_choice as u16 * 257, 12345, 54321] };
                if is_wm {
                    let got = dres(d.wm(), "wavelet matrix")?;
                    ensure_eq!(got.len, vals.len(), "doc.wm", "length");
                    ensure_eq!(got.core.width, width, "doc.wm", "width must be the bit length of the largest item");
                    ensure!(got.core.values() == vals, "doc.wm", "items reconstructed with the document's mapping rules differ from the vector");
                    let first = docfmt::first_array(&vals, width);
                    ensure_eq!(got.first.width, first.width, "doc.wm", "`first` must be bit-packed to its minimal width");
                    ensure!(got.first.items == first.items, "doc.wm", "`first` differs from the document's definition (first occurrence in the reordered vector, len if absent, one entry per alphabet value)");
                    let mut e = Enc::new();
                    e.wm(&vals);
                    let stripped = dres(docfmt::strip_wm(body), "wavelet matrix")?;
                    ensure!(e.e == stripped, "bytes.wm", "document encoding of the wavelet matrix differs from the library's bytes with supports stripped");
                    let loaded = load_doc(x.as_ref(), &wrap(e.e), "wavelet matrix")?;
                    same_answers(loaded.as_ref(), x.as_ref(), &mut rep, "load-doc.wm", "a wavelet matrix loaded from a file without support structures")?;
                    if opt == 0 {
                        let wm = loaded.as_any().downcast_ref::<WaveletMatrix>().expect("type");
                        let mut r2 = Report::new();
                        c04::check_wm(wm, &vm, &dummy, &mut r2).map_err(|mut f| {
                            f.sig = format!("load-doc.{}", f.sig);
                            f
                        })?;
                    }
                    // every level keeps its own generated subset of support structures
                    let keep: Vec<u8> = (0..7u8).map(|k| (case.w_choice.wrapping_mul(37).wrapping_add(k.wrapping_mul(11)) ^ case.slack.rotate_left(k as u32)) % 8).collect();
                    let mixed = dres(docfmt::strip_wm_masked(body, &keep), "wavelet matrix")?;
                    let loaded = load_doc(x.as_ref(), &wrap(mixed), "wavelet matrix (subsets of supports per level)")?;
                    same_answers(loaded.as_ref(), x.as_ref(), &mut rep, "load-doc.wm-mixed", &format!("a wavelet matrix loaded from a file whose levels keep the supports {:?}", keep))?;
                    if opt == 0 {
                        let wm = loaded.as_any().downcast_ref::<WaveletMatrix>().expect("type");
                        let mut r2 = Report::new();
                        c04::check_wm(wm, &vm, &dummy, &mut r2).map_err(|mut f| {
                            f.sig = format!("load-doc.mixed.{}", f.sig);
                            f
                        })?;
                    }
                    rep.class("wm-kept-supports:per-level-subsets");
                } else {
                    let got = dres(d.core(), "wavelet matrix core")?;
                    ensure_eq!(got.width, width, "doc.core", "width must be the bit length of the largest item");
                    ensure!(got.values() == vals, "doc.core", "items reconstructed with the document's mapping rules differ from the vector");
                    let mut e = Enc::new();
                    e.core(&vals, width);
                    let stripped = dres(docfmt::strip_core(body), "wavelet matrix core")?;
                    ensure!(e.e == stripped, "bytes.core", "document encoding of the core differs from the library's bytes with supports stripped");
                    let loaded = load_doc(x.as_ref(), &wrap(e.e), "wavelet matrix core")?;
                    same_answers(loaded.as_ref(), x.as_ref(), &mut rep, "load-doc.core", "a core loaded from a file without support structures")?;
                    if opt == 0 && vals.len() <= 2000 {
                        let core = loaded.as_any().downcast_ref::<WMCore>().expect("type");
                        c04::check_core(core, &vm, &dummy).map_err(|mut f| {
                            f.sig = format!("load-doc.{}", f.sig);
                            f
                        })?;
                    }
                }
                nontrivial = vals.len() >= 2;
            }
        }
        ensure!(d.done(), "doc.consumed", "{} elements of the library's file are left after decoding the structure", body.len() - d.pos);
        doc(Ok(()), "file")?;
        if nontrivial {
            rep.nontrivial(hash_of(&lib_bytes));
        }
        let _ = (IntVector::default().len(), RawVector::new().len());
        Ok(rep)
    }

    fn health(classes: &BTreeMap<String, u64>, _tier: Tier) -> Result<(), String> {
        for c in ["RawVector", "IntVector", "SparseVector", "SparseVector(big)", "SparseVector(multiset)", "RLVector", "WMCore", "WaveletMatrix", "String", "Vec<u8>", "Some:RLVector", "optional:absent", "rl:blocks>=9", "rl:padded-block", "rl:sample-width-slack", "bytes:padded", "sparse-doc:w=63", "sparse-doc:w=1", "wm-kept-supports:per-level-subsets", "sparse-kept-supports:010", "sparse-kept-supports:100", "raw:history+partial-word", "int:history+partial-word"] {
            if classes.get(c).copied().unwrap_or(0) == 0 {
                return Err(format!("no generated case reached class {}", c));
            }
        }
        Ok(())
    }

    fn assumptions() -> Vec<String> {
        vec![
            "the independent codec (harness/src/docfmt.rs) is a faithful reading of SERIALIZATION.md; rank/select support structures are treated as opaque optionals (the document does not define them)".into(),
            "sparse low width w = 64 is not generated: the document's x >> w is undefined for 64-bit elements and the library's own rule never exceeds 63".into(),
            "multiset sparse vectors are only decoded (direction 1); the document calls their semantics unclear".into(),
            "for an empty run-length vector any sample width is accepted (the document's 'minimal width' of no values is not defined)".into(),
        ]
    }
}

#[allow(dead_code)]
fn _use(_: &dyn Model) {}

//! A serde `Deserializer` that builds any `Deserialize` value from raw fuzzer bytes (structure-aware decoding in
//! the spirit of `arbitrary::Unstructured`): integers are read little-endian, sequence lengths and enum variants
//! from one byte each, and an exhausted input yields zeros (so decoding always terminates with empty sequences).

use serde::de::{self, DeserializeSeed, EnumAccess, IntoDeserializer, MapAccess, SeqAccess, VariantAccess, Visitor};
use std::fmt;

#[derive(Debug)]
pub struct Error(String);

impl fmt::Display for Error {
    fn fmt(&self, f: &mut fmt::Formatter) -> fmt::Result {
        write!(f, "{}", self.0)
    }
}

impl std::error::Error for Error {}

impl de::Error for Error {
    fn custom<T: fmt::Display>(msg: T) -> Self {
        Error(msg.to_string())
    }
}

pub struct BytesDe<'a> {
    data: &'a [u8],
    pos: usize,
    /// upper bound for sequence lengths
    max_seq: usize,
    depth: usize,
}

impl<'a> BytesDe<'a> {
    pub fn new(data: &'a [u8], max_seq: usize) -> Self {
        BytesDe { data, pos: 0, max_seq: max_seq.max(1), depth: 0 }
    }
    fn byte(&mut self) -> u8 {
        let b = self.data.get(self.pos).copied().unwrap_or(0);
        self.pos += 1;
        b
    }
    fn uint(&mut self, n: usize) -> u64 {
        let mut v = 0u64;
        for k in 0..n {
            v |= (self.byte() as u64) << (8 * k);
        }
        v
    }
    fn exhausted(&self) -> bool {
        self.pos >= self.data.len()
    }
    fn seq_len(&mut self) -> usize {
        if self.exhausted() || self.depth > 12 {
            0
        } else {
            self.byte() as usize % (self.max_seq + 1)
        }
    }
}

pub fn from_bytes<'de, T: de::Deserialize<'de>>(data: &[u8], max_seq: usize) -> Result<T, Error> {
    let mut d = BytesDe::new(data, max_seq);
    T::deserialize(&mut d)
}

macro_rules! de_int {
    ($name:ident, $visit:ident, $t:ty, $n:expr) => {
        fn $name<V: Visitor<'de>>(self, visitor: V) -> Result<V::Value, Error> {
            visitor.$visit(self.uint($n) as $t)
        }
    };
}

impl<'de, 'a, 'b> de::Deserializer<'de> for &'b mut BytesDe<'a> {
    type Error = Error;

    fn deserialize_any<V: Visitor<'de>>(self, _: V) -> Result<V::Value, Error> {
        Err(Error("deserialize_any is not supported (self-describing formats only)".into()))
    }
    fn deserialize_bool<V: Visitor<'de>>(self, visitor: V) -> Result<V::Value, Error> {
        visitor.visit_bool(self.byte() & 1 == 1)
    }
    de_int!(deserialize_u8, visit_u8, u8, 1);
    de_int!(deserialize_u16, visit_u16, u16, 2);
    de_int!(deserialize_u32, visit_u32, u32, 4);
    de_int!(deserialize_u64, visit_u64, u64, 8);
    de_int!(deserialize_i8, visit_i8, i8, 1);
    de_int!(deserialize_i16, visit_i16, i16, 2);
    de_int!(deserialize_i32, visit_i32, i32, 4);
    de_int!(deserialize_i64, visit_i64, i64, 8);
    fn deserialize_f32<V: Visitor<'de>>(self, visitor: V) -> Result<V::Value, Error> {
        visitor.visit_f32(self.uint(2) as f32)
    }
    fn deserialize_f64<V: Visitor<'de>>(self, visitor: V) -> Result<V::Value, Error> {
        visitor.visit_f64(self.uint(4) as f64)
    }
    fn deserialize_char<V: Visitor<'de>>(self, visitor: V) -> Result<V::Value, Error> {
        visitor.visit_char((b'a' + self.byte() % 26) as char)
    }
    fn deserialize_str<V: Visitor<'de>>(self, visitor: V) -> Result<V::Value, Error> {
        self.deserialize_string(visitor)
    }
    fn deserialize_string<V: Visitor<'de>>(self, visitor: V) -> Result<V::Value, Error> {
        let n = self.seq_len().min(16);
        let s: String = (0..n).map(|_| (b'a' + self.byte() % 26) as char).collect();
        visitor.visit_string(s)
    }
    fn deserialize_bytes<V: Visitor<'de>>(self, visitor: V) -> Result<V::Value, Error> {
        self.deserialize_byte_buf(visitor)
    }
    fn deserialize_byte_buf<V: Visitor<'de>>(self, visitor: V) -> Result<V::Value, Error> {
        let n = self.seq_len();
        let v: Vec<u8> = (0..n).map(|_| self.byte()).collect();
        visitor.visit_byte_buf(v)
    }
    fn deserialize_option<V: Visitor<'de>>(self, visitor: V) -> Result<V::Value, Error> {
        if self.byte() & 1 == 1 {
            visitor.visit_some(self)
        } else {
            visitor.visit_none()
        }
    }
    fn deserialize_unit<V: Visitor<'de>>(self, visitor: V) -> Result<V::Value, Error> {
        visitor.visit_unit()
    }
    fn deserialize_unit_struct<V: Visitor<'de>>(self, _: &'static str, visitor: V) -> Result<V::Value, Error> {
        visitor.visit_unit()
    }
    fn deserialize_newtype_struct<V: Visitor<'de>>(self, _: &'static str, visitor: V) -> Result<V::Value, Error> {
        visitor.visit_newtype_struct(self)
    }
    fn deserialize_seq<V: Visitor<'de>>(self, visitor: V) -> Result<V::Value, Error> {
        let n = self.seq_len();
        self.depth += 1;
        let r = visitor.visit_seq(Counted { de: &mut *self, left: n });
        self.depth -= 1;
        r
    }
    fn deserialize_tuple<V: Visitor<'de>>(self, len: usize, visitor: V) -> Result<V::Value, Error> {
        visitor.visit_seq(Counted { de: self, left: len })
    }
    fn deserialize_tuple_struct<V: Visitor<'de>>(self, _: &'static str, len: usize, visitor: V) -> Result<V::Value, Error> {
        visitor.visit_seq(Counted { de: self, left: len })
    }
    fn deserialize_map<V: Visitor<'de>>(self, visitor: V) -> Result<V::Value, Error> {
        let n = self.seq_len();
        visitor.visit_map(Counted { de: self, left: n })
    }
    fn deserialize_struct<V: Visitor<'de>>(self, _: &'static str, fields: &'static [&'static str], visitor: V) -> Result<V::Value, Error> {
        visitor.visit_seq(Counted { de: self, left: fields.len() })
    }
    fn deserialize_enum<V: Visitor<'de>>(self, _: &'static str, variants: &'static [&'static str], visitor: V) -> Result<V::Value, Error> {
        let idx = if variants.is_empty() { 0 } else { self.byte() as usize % variants.len() };
        visitor.visit_enum(Enum { de: self, idx: idx as u32 })
    }
    fn deserialize_identifier<V: Visitor<'de>>(self, _: V) -> Result<V::Value, Error> {
        Err(Error("identifiers are not supported".into()))
    }
    fn deserialize_ignored_any<V: Visitor<'de>>(self, visitor: V) -> Result<V::Value, Error> {
        visitor.visit_unit()
    }
    fn is_human_readable(&self) -> bool {
        false
    }
}

struct Counted<'b, 'a> {
    de: &'b mut BytesDe<'a>,
    left: usize,
}

impl<'de, 'b, 'a> SeqAccess<'de> for Counted<'b, 'a> {
    type Error = Error;
    fn next_element_seed<T: DeserializeSeed<'de>>(&mut self, seed: T) -> Result<Option<T::Value>, Error> {
        if self.left == 0 {
            return Ok(None);
        }
        self.left -= 1;
        seed.deserialize(&mut *self.de).map(Some)
    }
    fn size_hint(&self) -> Option<usize> {
        Some(self.left)
    }
}

impl<'de, 'b, 'a> MapAccess<'de> for Counted<'b, 'a> {
    type Error = Error;
    fn next_key_seed<K: DeserializeSeed<'de>>(&mut self, seed: K) -> Result<Option<K::Value>, Error> {
        if self.left == 0 {
            return Ok(None);
        }
        self.left -= 1;
        seed.deserialize(&mut *self.de).map(Some)
    }
    fn next_value_seed<V: DeserializeSeed<'de>>(&mut self, seed: V) -> Result<V::Value, Error> {
        seed.deserialize(&mut *self.de)
    }
}

struct Enum<'b, 'a> {
    de: &'b mut BytesDe<'a>,
    idx: u32,
}

impl<'de, 'b, 'a> EnumAccess<'de> for Enum<'b, 'a> {
    type Error = Error;
    type Variant = Self;
    fn variant_seed<V: DeserializeSeed<'de>>(self, seed: V) -> Result<(V::Value, Self), Error> {
        let v = seed.deserialize(self.idx.into_deserializer())?;
        Ok((v, self))
    }
}

impl<'de, 'b, 'a> VariantAccess<'de> for Enum<'b, 'a> {
    type Error = Error;
    fn unit_variant(self) -> Result<(), Error> {
        Ok(())
    }
    fn newtype_variant_seed<T: DeserializeSeed<'de>>(self, seed: T) -> Result<T::Value, Error> {
        seed.deserialize(self.de)
    }
    fn tuple_variant<V: Visitor<'de>>(self, len: usize, visitor: V) -> Result<V::Value, Error> {
        visitor.visit_seq(Counted { de: self.de, left: len })
    }
    fn struct_variant<V: Visitor<'de>>(self, fields: &'static [&'static str], visitor: V) -> Result<V::Value, Error> {
        visitor.visit_seq(Counted { de: self.de, left: fields.len() })
    }
}

//! An independent codec for the simple-sds file format, written ONLY from SERIALIZATION.md.
//! It never calls the library. Decoders assert the document's requirements and return the
//! logical content; encoders produce files with support structures absent.

use crate::util::bit_len;

pub type DResult<T> = Result<T, String>;

pub fn to_elements(bytes: &[u8]) -> DResult<Vec<u64>> {
    if bytes.len() % 8 != 0 {
        return Err(format!("file size {} is not a multiple of 8 bytes", bytes.len()));
    }
    Ok(bytes.chunks(8).map(|c| u64::from_le_bytes([c[0], c[1], c[2], c[3], c[4], c[5], c[6], c[7]])).collect())
}

pub fn to_bytes(elems: &[u64]) -> Vec<u8> {
    let mut out = Vec::with_capacity(elems.len() * 8);
    for e in elems {
        out.extend_from_slice(&e.to_le_bytes());
    }
    out
}

//-----------------------------------------------------------------------------
// logical content

#[derive(Clone, Debug, PartialEq, Eq)]
pub struct DRaw {
    pub len: usize,
    pub words: Vec<u64>,
}

impl DRaw {
    pub fn bit(&self, i: usize) -> bool {
        (self.words[i / 64] >> (i % 64)) & 1 == 1
    }
    pub fn read(&self, offset: usize, width: usize) -> u64 {
        let mut v = 0u64;
        for k in 0..width {
            if self.bit(offset + k) {
                v |= 1u64 << k;
            }
        }
        v
    }
    pub fn ones(&self) -> usize {
        self.words.iter().map(|w| w.count_ones() as usize).sum()
    }
    pub fn from_bools(bits: &[bool]) -> DRaw {
        let mut words = vec![0u64; (bits.len() + 63) / 64];
        for (i, b) in bits.iter().enumerate() {
            if *b {
                words[i / 64] |= 1 << (i % 64);
            }
        }
        DRaw { len: bits.len(), words }
    }
}

#[derive(Clone, Debug, PartialEq, Eq)]
pub struct DInt {
    pub width: usize,
    pub items: Vec<u64>,
}

#[derive(Clone, Debug, PartialEq, Eq)]
pub struct DBitVector {
    pub raw: DRaw,
    /// which optional support structures were present (content is implementation-dependent and not interpreted)
    pub present: [bool; 3],
}

#[derive(Clone, Debug, PartialEq, Eq)]
pub struct DSparse {
    pub n: usize,
    pub w: usize,
    pub values: Vec<usize>,
}

#[derive(Clone, Debug, PartialEq, Eq)]
pub struct DRl {
    pub n: usize,
    pub ones: usize,
    pub runs: Vec<(usize, usize)>,
    pub blocks: usize,
    pub sample_width: usize,
}

#[derive(Clone, Debug, PartialEq, Eq)]
pub struct DCore {
    pub width: usize,
    pub levels: Vec<DBitVector>,
}

#[derive(Clone, Debug, PartialEq, Eq)]
pub struct DWm {
    pub len: usize,
    pub core: DCore,
    pub first: DInt,
}

//-----------------------------------------------------------------------------
// decoder

pub struct Dec<'a> {
    pub e: &'a [u64],
    pub pos: usize,
}

impl<'a> Dec<'a> {
    pub fn new(e: &'a [u64]) -> Dec<'a> {
        Dec { e, pos: 0 }
    }
    pub fn done(&self) -> bool {
        self.pos == self.e.len()
    }
    pub fn elem(&mut self) -> DResult<u64> {
        let v = *self.e.get(self.pos).ok_or_else(|| format!("file ends at element {}", self.pos))?;
        self.pos += 1;
        Ok(v)
    }
    pub fn take(&mut self, n: usize) -> DResult<&'a [u64]> {
        if n > self.e.len() - self.pos {
            return Err(format!("need {} elements at {}, file has {}", n, self.pos, self.e.len()));
        }
        let s = &self.e[self.pos..self.pos + n];
        self.pos += n;
        Ok(s)
    }
    /// vector of elements: length, then items
    pub fn vec_elems(&mut self) -> DResult<Vec<u64>> {
        let n = self.elem()? as usize;
        Ok(self.take(n)?.to_vec())
    }
    /// vector of pairs of elements
    pub fn vec_pairs(&mut self) -> DResult<Vec<(u64, u64)>> {
        let n = self.elem()? as usize;
        let s = self.take(n.checked_mul(2).ok_or("length overflow")?)?;
        Ok(s.chunks(2).map(|c| (c[0], c[1])).collect())
    }
    /// vector of bytes with zero padding
    pub fn bytes(&mut self) -> DResult<Vec<u8>> {
        let n = self.elem()? as usize;
        let words = (n.checked_add(7).ok_or("length overflow")?) / 8;
        let s = self.take(words)?;
        let all = to_bytes(s);
        for (i, b) in all[n..].iter().enumerate() {
            if *b != 0 {
                return Err(format!("padding byte {} of a byte vector of length {} is {:#x}, must be 0", i, n, b));
            }
        }
        Ok(all[..n].to_vec())
    }
    pub fn string(&mut self) -> DResult<String> {
        String::from_utf8(self.bytes()?).map_err(|_| "string is not UTF-8".to_string())
    }
    /// optional structure: returns the elements of the structure if present
    pub fn optional(&mut self) -> DResult<Option<&'a [u64]>> {
        let n = self.elem()? as usize;
        if n == 0 {
            Ok(None)
        } else {
            Ok(Some(self.take(n)?))
        }
    }
    pub fn raw(&mut self) -> DResult<DRaw> {
        let len = self.elem()? as usize;
        let words = self.vec_elems()?;
        let need = (len / 64) + if len % 64 != 0 { 1 } else { 0 };
        if words.len() != need {
            return Err(format!("raw bitvector of length {} must use floor((n+63)/64) = {} elements, file has {}", len, need, words.len()));
        }
        if len % 64 != 0 {
            let last = words[words.len() - 1];
            if last >> (len % 64) != 0 {
                return Err(format!("unused bits of the last element of a raw bitvector of length {} are not zero: {:#018x}", len, last));
            }
        }
        Ok(DRaw { len, words })
    }
    pub fn int(&mut self) -> DResult<DInt> {
        let len = self.elem()? as usize;
        let width = self.elem()? as usize;
        if width < 1 || width > 64 {
            return Err(format!("integer vector width {} is not in 1..=64", width));
        }
        let raw = self.raw()?;
        if Some(raw.len) != len.checked_mul(width) {
            return Err(format!("integer vector of {} items of width {} must use a raw bitvector of length n*w, file has {}", len, width, raw.len));
        }
        let items = (0..len).map(|i| raw.read(i * width, width)).collect();
        Ok(DInt { width, items })
    }
    pub fn bitvector(&mut self) -> DResult<DBitVector> {
        let ones = self.elem()? as usize;
        let raw = self.raw()?;
        if raw.ones() != ones {
            return Err(format!("bitvector header says {} set bits, the data has {}", ones, raw.ones()));
        }
        let mut present = [false; 3];
        for p in present.iter_mut() {
            *p = self.optional()?.is_some();
        }
        Ok(DBitVector { raw, present })
    }
    pub fn sparse(&mut self) -> DResult<DSparse> {
        let n = self.elem()? as usize;
        let high = self.bitvector()?;
        let low = self.int()?;
        let w = low.width;
        let m = low.items.len();
        let ones = high.raw.ones();
        if ones != m {
            return Err(format!("sparse: high has {} set bits but low has {} items", ones, m));
        }
        let zeros = high.raw.len - ones;
        // one bucket for each high part of the positions 0..n, no additional buckets
        let buckets = if w >= 64 { if n > 0 { 1 } else { 0 } } else { (n >> w) + if n & ((1usize << w) - 1) != 0 { 1 } else { 0 } };
        if zeros != buckets {
            return Err(format!("sparse: universe {} with low width {} needs exactly {} buckets (unset bits in high), file has {}", n, w, buckets, zeros));
        }
        let mut values = Vec::with_capacity(m);
        let mut i = 0usize;
        for pos in 0..high.raw.len {
            if high.raw.bit(pos) {
                let hp = pos - i;
                let v = (low.items[i] as usize).wrapping_add(hp << w.min(63));
                if v >= n {
                    return Err(format!("sparse: value {} (item {}) is not below the universe size {}", v, i, n));
                }
                values.push(v);
                i += 1;
            }
        }
        for k in 1..values.len() {
            if values[k] < values[k - 1] {
                return Err(format!("sparse: values not sorted at {}", k));
            }
        }
        Ok(DSparse { n, w, values })
    }
    pub fn rl(&mut self) -> DResult<DRl> {
        let n = self.elem()? as usize;
        let ones = self.elem()? as usize;
        let samples = self.int()?;
        let data = self.int()?;
        if data.width != 4 {
            return Err(format!("rl: blocks must be an integer vector of width 4, file has {}", data.width));
        }
        if samples.items.len() % 2 != 0 {
            return Err("rl: odd number of sample values".into());
        }
        let blocks = samples.items.len() / 2;
        let need_blocks = (data.items.len() + 63) / 64;
        if blocks != need_blocks {
            return Err(format!("rl: {} code units form {} blocks but there are {} samples", data.items.len(), need_blocks, blocks));
        }
        if let Some(&max) = samples.items.iter().max() {
            if samples.width != bit_len(max) {
                return Err(format!("rl: samples must use the minimal width {} for their largest value {}, file has {}", bit_len(max), max, samples.width));
            }
        }
        let units = &data.items;
        let mut runs: Vec<(usize, usize)> = Vec::new();
        let mut pos = 0usize; // bits so far
        let mut set = 0usize; // set bits so far
        let mut prev_block_used = 0usize;
        let decode = |at: &mut usize, limit: usize| -> DResult<(usize, usize)> {
            let mut v: u128 = 0;
            let mut shift = 0u32;
            let start = *at;
            loop {
                if *at >= limit {
                    return Err(format!("rl: value starting at code unit {} runs past the end of its block/data at {}", start, limit));
                }
                let c = units[*at];
                *at += 1;
                v |= ((c & 7) as u128) << shift;
                shift += 3;
                if c & 8 == 0 {
                    break;
                }
                if shift > 66 {
                    return Err(format!("rl: value at code unit {} is longer than 22 units", start));
                }
            }
            if v > usize::MAX as u128 {
                return Err(format!("rl: value at code unit {} exceeds 64 bits", start));
            }
            Ok((v as usize, *at - start))
        };
        for b in 0..blocks {
            let (s_ones, s_bits) = (samples.items[2 * b] as usize, samples.items[2 * b + 1] as usize);
            if s_ones != set || s_bits != pos {
                return Err(format!("rl: sample of block {} is ({}, {}) but the preceding blocks encode ({}, {}) (set bits, bits)", b, s_ones, s_bits, set, pos));
            }
            let block_start = b * 64;
            let block_end = ((b + 1) * 64).min(units.len());
            let target = if b + 1 < blocks { samples.items[2 * (b + 1)] as usize } else { ones };
            let mut at = block_start;
            let mut first_in_block = true;
            while set < target {
                let run_at = at;
                let (n0, u0) = decode(&mut at, block_end)?;
                let (l1, u1) = decode(&mut at, block_end)?;
                if !(runs.is_empty()) && n0 == 0 {
                    return Err(format!("rl: run at code unit {} starts right after the previous run (runs must be maximal)", run_at));
                }
                if first_in_block && b > 0 {
                    // greedy packing: this run must not have fitted into the previous block
                    if prev_block_used + u0 + u1 <= 64 {
                        return Err(format!("rl: block {} was closed after {} units although the next run ({} units) would have fitted", b - 1, prev_block_used, u0 + u1));
                    }
                }
                first_in_block = false;
                let start = pos.checked_add(n0).ok_or("rl: position overflow")?;
                let len = l1.checked_add(1).ok_or("rl: run length overflow")?;
                pos = start.checked_add(len).ok_or("rl: position overflow")?;
                set = set.checked_add(len).ok_or("rl: count overflow")?;
                runs.push((start, len));
            }
            if set != target {
                return Err(format!("rl: block {} encodes past the next sample ({} set bits, sample says {})", b, set, target));
            }
            let used = at - block_start;
            if b + 1 < blocks {
                for k in at..block_end {
                    if units[k] != 0 {
                        return Err(format!("rl: padding unit {} in block {} is {}, must be 0", k, b, units[k]));
                    }
                }
            } else if at != units.len() {
                return Err(format!("rl: the final block has {} units after its last run (a non-full final block must not contain padding)", units.len() - at));
            }
            if used == 0 {
                return Err(format!("rl: block {} contains no run", b));
            }
            prev_block_used = used;
        }
        if set != ones {
            return Err(format!("rl: header says {} set bits, the blocks encode {}", ones, set));
        }
        if pos > n {
            return Err(format!("rl: runs end at {} beyond the length {}", pos, n));
        }
        Ok(DRl { n, ones, runs, blocks, sample_width: samples.width })
    }
    pub fn core(&mut self) -> DResult<DCore> {
        let width = self.elem()? as usize;
        if width < 1 || width > 64 {
            return Err(format!("wavelet matrix core width {} not in 1..=64", width));
        }
        let mut levels: Vec<DBitVector> = Vec::with_capacity(width);
        for l in 0..width {
            let bv = self.bitvector()?;
            if l > 0 && bv.raw.len != levels[0].raw.len {
                return Err(format!("wm core: level {} has length {} but level 0 has {}", l, bv.raw.len, levels[0].raw.len));
            }
            levels.push(bv);
        }
        Ok(DCore { width, levels })
    }
    pub fn wm(&mut self) -> DResult<DWm> {
        let len = self.elem()? as usize;
        let core = self.core()?;
        if core.levels[0].raw.len != len {
            return Err(format!("wm: length {} but the core levels have length {}", len, core.levels[0].raw.len));
        }
        let first = self.int()?;
        Ok(DWm { len, core, first })
    }
}

impl DCore {
    /// Reconstruct the items with the document's mapping rules (rank computed naively).
    pub fn values(&self) -> Vec<u64> {
        let n = self.levels[0].raw.len;
        // prefix ranks per level
        let mut out = Vec::with_capacity(n);
        let ranks: Vec<Vec<usize>> = self
            .levels
            .iter()
            .map(|l| {
                let mut r = Vec::with_capacity(n + 1);
                let mut c = 0usize;
                r.push(0);
                for i in 0..n {
                    if l.raw.bit(i) {
                        c += 1;
                    }
                    r.push(c);
                }
                r
            })
            .collect();
        for i in 0..n {
            let mut idx = i;
            let mut v = 0u64;
            for (level, l) in self.levels.iter().enumerate() {
                let ones_total = ranks[level][n];
                let zeros_total = n - ones_total;
                if l.raw.bit(idx) {
                    v += 1u64 << (self.width - 1 - level);
                    idx = zeros_total + ranks[level][idx];
                } else {
                    idx = idx - ranks[level][idx];
                }
            }
            out.push(v);
        }
        out
    }
}

/// The document's `first` array for a vector: position of the first occurrence of each value of the alphabet 0..=max in the
/// vector reordered by reversed binary representation, or len if absent; bit-packed to the minimal width.
pub fn first_array(vals: &[u64], width: usize) -> DInt {
    let n = vals.len();
    let max = vals.iter().copied().max().unwrap_or(0);
    let rev = |v: u64| -> u64 {
        let mut o = 0u64;
        for k in 0..width {
            if (v >> k) & 1 == 1 {
                o |= 1 << (width - 1 - k);
            }
        }
        o
    };
    let mut sorted: Vec<u64> = vals.to_vec();
    sorted.sort_by_key(|&v| rev(v));
    let mut first = vec![n as u64; max as usize + 1];
    for (p, &v) in sorted.iter().enumerate().rev() {
        first[v as usize] = p as u64;
    }
    let w = bit_len(first.iter().copied().max().unwrap_or(0));
    DInt { width: w, items: first }
}

//-----------------------------------------------------------------------------
// encoder (support structures absent)

#[derive(Default)]
pub struct Enc {
    pub e: Vec<u64>,
}

impl Enc {
    pub fn new() -> Enc {
        Enc { e: Vec::new() }
    }
    pub fn elem(&mut self, v: u64) {
        self.e.push(v);
    }
    pub fn vec_elems(&mut self, v: &[u64]) {
        self.e.push(v.len() as u64);
        self.e.extend_from_slice(v);
    }
    pub fn bytes(&mut self, b: &[u8]) {
        self.e.push(b.len() as u64);
        let mut padded = b.to_vec();
        while padded.len() % 8 != 0 {
            padded.push(0);
        }
        self.e.extend(padded.chunks(8).map(|c| u64::from_le_bytes([c[0], c[1], c[2], c[3], c[4], c[5], c[6], c[7]])));
    }
    pub fn raw(&mut self, r: &DRaw) {
        self.e.push(r.len as u64);
        self.vec_elems(&r.words);
    }
    pub fn int(&mut self, width: usize, items: &[u64]) {
        self.e.push(items.len() as u64);
        self.e.push(width as u64);
        let total = items.len() * width;
        let mut words = vec![0u64; (total + 63) / 64];
        for (i, &v) in items.iter().enumerate() {
            let v = if width == 64 { v } else { v & ((1u64 << width) - 1) };
            let off = i * width;
            words[off / 64] |= v << (off % 64);
            if off % 64 + width > 64 {
                words[off / 64 + 1] |= v >> (64 - off % 64);
            }
        }
        self.raw(&DRaw { len: total, words });
    }
    pub fn bitvector(&mut self, r: &DRaw) {
        self.e.push(r.ones() as u64);
        self.raw(r);
        self.e.push(0);
        self.e.push(0);
        self.e.push(0);
    }
    /// values sorted, all below n; low width w in 1..=63
    pub fn sparse(&mut self, n: usize, values: &[usize], w: usize) {
        let buckets = (n >> w) + if n & ((1usize << w) - 1) != 0 { 1 } else { 0 };
        let m = values.len();
        let mut high = vec![false; buckets + m];
        let mut low = Vec::with_capacity(m);
        for (i, &v) in values.iter().enumerate() {
            high[(v >> w) + i] = true;
            low.push((v & ((1usize << w) - 1)) as u64);
        }
        self.e.push(n as u64);
        self.bitvector(&DRaw::from_bools(&high));
        self.int(w, &low);
    }
    /// maximal runs; `extra_sample_width` widens the sample vector beyond the minimal width (reader-side freedom)
    pub fn rl(&mut self, n: usize, runs: &[(usize, usize)], extra_sample_width: usize) {
        let mut units: Vec<u64> = Vec::new();
        let mut samples: Vec<u64> = Vec::new();
        let mut blocks = 0usize;
        let mut tail = 0usize;
        let mut ones = 0usize;
        let code = |v: usize| -> Vec<u64> {
            let mut v = v as u64;
            let mut out = Vec::new();
            while v > 7 {
                out.push((v & 7) | 8);
                v >>= 3;
            }
            out.push(v);
            out
        };
        for &(s, l) in runs {
            let mut c = code(s - tail);
            c.extend(code(l - 1));
            if units.len() + c.len() > blocks * 64 {
                units.resize(blocks * 64, 0);
                samples.push(ones as u64);
                samples.push(tail as u64);
                blocks += 1;
            }
            units.extend(c);
            tail = s + l;
            ones += l;
        }
        let sw = (bit_len(samples.iter().copied().max().unwrap_or(0)) + extra_sample_width).min(64);
        self.e.push(n as u64);
        self.e.push(ones as u64);
        self.int(sw, &samples);
        self.int(4, &units);
    }
    pub fn core(&mut self, vals: &[u64], width: usize) {
        self.e.push(width as u64);
        let mut cur: Vec<u64> = vals.to_vec();
        for level in 0..width {
            let bit = 1u64 << (width - 1 - level);
            let bits: Vec<bool> = cur.iter().map(|v| v & bit != 0).collect();
            self.bitvector(&DRaw::from_bools(&bits));
            let mut next: Vec<u64> = cur.iter().copied().filter(|v| v & bit == 0).collect();
            next.extend(cur.iter().copied().filter(|v| v & bit != 0));
            cur = next;
        }
    }
    pub fn wm(&mut self, vals: &[u64]) {
        let width = bit_len(vals.iter().copied().max().unwrap_or(0));
        self.e.push(vals.len() as u64);
        self.core(vals, width);
        let first = first_array(vals, width);
        self.int(first.width, &first.items);
    }
}

//-----------------------------------------------------------------------------
// stripping support structures from library files (structure-aware copy)

/// Copy a bitvector from `d` to `out` with the three optional support structures made absent.
pub fn strip_bitvector(d: &mut Dec, out: &mut Enc) -> DResult<()> {
    strip_bitvector_masked(d, out, 0)
}

/// Copy a bitvector keeping only the optional support structures selected by `keep` (bit 0 rank, bit 1 select,
/// bit 2 select_zero) - the format makes each of them independently optional.
pub fn strip_bitvector_masked(d: &mut Dec, out: &mut Enc, keep: u8) -> DResult<()> {
    let ones = d.elem()?;
    out.elem(ones);
    let len = d.elem()?;
    out.elem(len);
    let words = d.vec_elems()?;
    out.vec_elems(&words);
    for k in 0..3 {
        match d.optional()? {
            Some(body) if keep & (1 << k) != 0 => {
                out.elem(body.len() as u64);
                for &x in body {
                    out.elem(x);
                }
            }
            _ => out.elem(0),
        }
    }
    Ok(())
}

pub fn copy_int(d: &mut Dec, out: &mut Enc) -> DResult<()> {
    let len = d.elem()?;
    let width = d.elem()?;
    out.elem(len);
    out.elem(width);
    let bits = d.elem()?;
    out.elem(bits);
    let words = d.vec_elems()?;
    out.vec_elems(&words);
    Ok(())
}

pub fn strip_sparse(e: &[u64]) -> DResult<Vec<u64>> {
    strip_sparse_masked(e, 0)
}

pub fn strip_sparse_masked(e: &[u64], keep: u8) -> DResult<Vec<u64>> {
    let mut d = Dec::new(e);
    let mut out = Enc::new();
    let n = d.elem()?;
    out.elem(n);
    strip_bitvector_masked(&mut d, &mut out, keep)?;
    copy_int(&mut d, &mut out)?;
    if !d.done() {
        return Err("trailing elements after a sparse vector".into());
    }
    Ok(out.e)
}

pub fn strip_core_into(d: &mut Dec, out: &mut Enc) -> DResult<()> {
    strip_core_into_masked(d, out, &[])
}

/// `keep[level % keep.len()]` selects the support structures that level keeps (none when `keep` is empty).
pub fn strip_core_into_masked(d: &mut Dec, out: &mut Enc, keep: &[u8]) -> DResult<()> {
    let width = d.elem()?;
    out.elem(width);
    for level in 0..width.min(64) as usize {
        let k = if keep.is_empty() { 0 } else { keep[level % keep.len()] };
        strip_bitvector_masked(d, out, k)?;
    }
    Ok(())
}

pub fn strip_core(e: &[u64]) -> DResult<Vec<u64>> {
    strip_core_masked(e, &[])
}

pub fn strip_core_masked(e: &[u64], keep: &[u8]) -> DResult<Vec<u64>> {
    let mut d = Dec::new(e);
    let mut out = Enc::new();
    strip_core_into_masked(&mut d, &mut out, keep)?;
    if !d.done() {
        return Err("trailing elements after a wavelet matrix core".into());
    }
    Ok(out.e)
}

pub fn strip_wm(e: &[u64]) -> DResult<Vec<u64>> {
    strip_wm_masked(e, &[])
}

pub fn strip_wm_masked(e: &[u64], keep: &[u8]) -> DResult<Vec<u64>> {
    let mut d = Dec::new(e);
    let mut out = Enc::new();
    let len = d.elem()?;
    out.elem(len);
    strip_core_into_masked(&mut d, &mut out, keep)?;
    copy_int(&mut d, &mut out)?;
    if !d.done() {
        return Err("trailing elements after a wavelet matrix".into());
    }
    Ok(out.e)
}

pub fn strip_bv(e: &[u64]) -> DResult<Vec<u64>> {
    let mut d = Dec::new(e);
    let mut out = Enc::new();
    strip_bitvector(&mut d, &mut out)?;
    if !d.done() {
        return Err("trailing elements after a bitvector".into());
    }
    Ok(out.e)
}

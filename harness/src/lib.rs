pub mod util;
pub mod engine;
pub mod model;
pub mod gen;
pub mod anyval;
pub mod docfmt;
pub mod props;

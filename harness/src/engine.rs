//! Runner: seeded proptest TestRunner per shard, optional worker-process isolation, counters,
//! distinct hashing, known-finding matching, replay files, evidence fragments.

use crate::util::{abbreviate, hash_str, mix};
use proptest::strategy::{BoxedStrategy, Strategy};
use proptest::test_runner::{Config, RngAlgorithm, TestCaseError, TestError, TestRng, TestRunner};
use serde::de::DeserializeOwned;
use serde::{Deserialize, Serialize};
use std::cell::RefCell;
use std::collections::{BTreeMap, HashSet};
use std::fmt::Debug;
use std::io::{BufRead, BufReader, Write};
use std::path::{Path, PathBuf};
use std::process::{Child, ChildStdin, Command, Stdio};
use std::sync::atomic::{AtomicBool, AtomicU64, Ordering};
use std::sync::mpsc::{channel, Receiver, RecvTimeoutError};
use std::time::{Duration, Instant};

#[derive(Clone, Copy, Debug, PartialEq, Eq)]
pub enum Tier {
    Quick,
    Thorough,
}

impl Tier {
    pub fn name(self) -> &'static str {
        match self {
            Tier::Quick => "quick",
            Tier::Thorough => "thorough",
        }
    }
    pub fn pick<T>(self, quick: T, thorough: T) -> T {
        match self {
            Tier::Quick => quick,
            Tier::Thorough => thorough,
        }
    }
}

/// What a passing case reports back.
#[derive(Clone, Debug, Default, Serialize, Deserialize)]
pub struct Report {
    /// number of evaluations this case stands for (1 for ordinary cases; number of fault points for enumerations)
    pub evals: u64,
    /// digests of the distinct non-trivial things this case covered (empty = trivial case)
    pub keys: Vec<u64>,
    /// regime / class labels for the histogram
    pub classes: Vec<String>,
}

impl Report {
    pub fn new() -> Self {
        Report { evals: 1, keys: Vec::new(), classes: Vec::new() }
    }
    pub fn class(&mut self, c: &str) {
        self.classes.push(c.to_string());
    }
    pub fn class_if(&mut self, cond: bool, c: &str) {
        if cond {
            self.classes.push(c.to_string());
        }
    }
    pub fn nontrivial(&mut self, key: u64) {
        self.keys.push(key);
    }
}

#[derive(Clone, Debug, Serialize, Deserialize)]
pub struct Fail {
    /// stable signature (sub-check / call site / failure kind) used for known-finding matching
    pub sig: String,
    pub msg: String,
}

impl Fail {
    pub fn new(sig: impl Into<String>, msg: impl Into<String>) -> Self {
        Fail { sig: sig.into(), msg: msg.into() }
    }
}

pub type CaseResult = Result<Report, Fail>;

#[macro_export]
macro_rules! ensure {
    ($cond:expr, $sig:expr, $($arg:tt)*) => {
        if !($cond) {
            return Err($crate::engine::Fail::new($sig, format!($($arg)*)));
        }
    };
}

#[macro_export]
macro_rules! ensure_eq {
    ($a:expr, $b:expr, $sig:expr, $($arg:tt)*) => {{
        let a = &$a;
        let b = &$b;
        if a != b {
            return Err($crate::engine::Fail::new($sig, format!("{}: got {:?}, expected {:?}", format!($($arg)*), a, b)));
        }
    }};
}

pub trait Prop: 'static {
    type Case: Clone + Debug + Serialize + DeserializeOwned + Send + 'static;
    const ID: &'static str;
    /// how cases are generated and what makes one non-trivial / distinct
    const RULE: &'static str;
    /// run each case in a worker process (for properties whose monitors kill the process)
    const ISOLATE: bool = false;
    /// evidence level
    const LEVEL: &'static str = "exploration";
    /// per-case watchdog for isolated cases
    const CASE_TIMEOUT_S: u64 = 60;

    fn strategy(tier: Tier, cfg: &str) -> BoxedStrategy<Self::Case>;
    /// number of generated cases for one build configuration (split over the shards)
    fn cases(tier: Tier) -> u32;
    /// complete small-scope enumeration; `emit` returns false when the run should stop
    fn exhaustive(_tier: Tier, _shard: usize, _nshards: usize, _emit: &mut dyn FnMut(Self::Case) -> bool) {}
    /// true when `exhaustive` enumerates a finite space completely
    fn exhaustive_note(_tier: Tier) -> Option<String> {
        None
    }
    fn run(case: &Self::Case) -> CaseResult;
    /// generator health check over the class histogram (Err = inconclusive, exit 2)
    fn health(_classes: &BTreeMap<String, u64>, _tier: Tier) -> Result<(), String> {
        Ok(())
    }
    fn assumptions() -> Vec<String> {
        Vec::new()
    }
    /// Clamp resource-sizing fields of a case that did not come from `strategy` (byte-decoded fuzzer inputs).
    fn sanitize(_case: &mut Self::Case) {}
}

//-----------------------------------------------------------------------------
// panic capture

thread_local! {
    static LAST_PANIC: RefCell<Option<(String, String)>> = RefCell::new(None);
}

pub fn install_panic_hook() {
    std::panic::set_hook(Box::new(|info| {
        let loc = info
            .location()
            .map(|l| {
                let f = l.file();
                match f.strip_prefix("/repo/") {
                    Some(lib) => format!("{}:{}", lib, l.line()),
                    // the standard library (called from the code under test or from the harness)
                    None if f.starts_with("/rustc/") => format!("std:{}:{}", f.rsplit("/library/").next().unwrap_or(f), l.line()),
                    None => format!("harness:{}:{}", f, l.line()),
                }
            })
            .unwrap_or_else(|| "?".to_string());
        let msg = if let Some(s) = info.payload().downcast_ref::<&str>() {
            s.to_string()
        } else if let Some(s) = info.payload().downcast_ref::<String>() {
            s.clone()
        } else {
            "<non-string panic payload>".to_string()
        };
        if msg.contains("unsafe precondition") || msg.contains("misaligned pointer") || msg.contains("cannot unwind") || msg.contains("null pointer dereference") {
            eprintln!("FATAL non-unwinding panic at {}: {}", loc, msg);
            eprintln!("{}", std::backtrace::Backtrace::force_capture());
        }
        LAST_PANIC.with(|c| *c.borrow_mut() = Some((loc, msg)));
    }));
}

pub fn take_last_panic() -> Option<(String, String)> {
    LAST_PANIC.with(|c| c.borrow_mut().take())
}

/// Run a closure, turning an unwinding panic into `Err((location, message))`.
pub fn catch<T>(f: impl FnOnce() -> T) -> Result<T, (String, String)> {
    let _ = take_last_panic();
    match std::panic::catch_unwind(std::panic::AssertUnwindSafe(f)) {
        Ok(v) => Ok(v),
        Err(_) => Err(take_last_panic().unwrap_or(("?".into(), "?".into()))),
    }
}

fn run_caught<P: Prop>(case: &P::Case) -> CaseResult {
    match catch(|| P::run(case)) {
        Ok(r) => r,
        Err((loc, msg)) => Err(Fail::new(format!("panic@{}", loc), format!("panic at {}: {}", loc, msg))),
    }
}

//-----------------------------------------------------------------------------
// known findings

#[derive(Clone, Debug)]
pub struct Known {
    pub key: String,
    pub text: String,
}

pub fn load_known(path: &Path, id: &str) -> Vec<Known> {
    let mut out = Vec::new();
    if let Ok(s) = std::fs::read_to_string(path) {
        for line in s.lines() {
            let line = line.trim();
            if let Some(rest) = line.strip_prefix("open:") {
                let rest = rest.trim();
                let mut it = rest.splitn(3, ' ');
                let p = it.next().unwrap_or("");
                let k = it.next().unwrap_or("");
                let text = it.next().unwrap_or("").trim();
                if p == format!("property={}", id) {
                    if let Some(key) = k.strip_prefix("key=") {
                        out.push(Known { key: key.to_string(), text: text.to_string() });
                    }
                }
            }
        }
    }
    out
}

//-----------------------------------------------------------------------------
// worker process protocol

#[derive(Serialize, Deserialize)]
enum Wire {
    R(Report),
    F(Fail),
}

pub fn worker_main<P: Prop>() -> i32 {
    install_panic_hook();
    let stdin = std::io::stdin();
    let stdout = std::io::stdout();
    let mut line = String::new();
    loop {
        line.clear();
        match stdin.lock().read_line(&mut line) {
            Ok(0) => return 0,
            Ok(_) => {}
            Err(_) => return 0,
        }
        if line.trim_end() == "QUIT" {
            return 0;
        }
        let case: P::Case = match serde_json::from_str(line.trim_end()) {
            Ok(c) => c,
            Err(e) => {
                eprintln!("worker: cannot decode case: {}", e);
                return 3;
            }
        };
        let res = run_caught::<P>(&case);
        let wire = match res {
            Ok(r) => Wire::R(r),
            Err(f) => Wire::F(f),
        };
        let mut out = stdout.lock();
        let _ = serde_json::to_writer(&mut out, &wire);
        let _ = out.write_all(b"\n");
        let _ = out.flush();
    }
}

struct Worker {
    child: Child,
    stdin: ChildStdin,
    rx: Receiver<String>,
    stderr_path: PathBuf,
}

static WORKER_SEQ: AtomicU64 = AtomicU64::new(0);

impl Worker {
    fn spawn(id: &str, scratch: &Path) -> std::io::Result<Worker> {
        let exe = std::env::current_exe()?;
        let n = WORKER_SEQ.fetch_add(1, Ordering::SeqCst);
        let stderr_path = scratch.join(format!("worker-{}-{}-{}.stderr", id, std::process::id(), n));
        let stderr_file = std::fs::File::create(&stderr_path)?;
        let mut child = Command::new(exe)
            .arg("worker")
            .arg(id)
            .env("RUST_BACKTRACE", "1")
            .stdin(Stdio::piped())
            .stdout(Stdio::piped())
            .stderr(Stdio::from(stderr_file))
            .spawn()?;
        let stdin = child.stdin.take().unwrap();
        let stdout = child.stdout.take().unwrap();
        let (tx, rx) = channel();
        std::thread::spawn(move || {
            let mut r = BufReader::new(stdout);
            loop {
                let mut l = String::new();
                match r.read_line(&mut l) {
                    Ok(0) | Err(_) => break,
                    Ok(_) => {
                        if tx.send(l).is_err() {
                            break;
                        }
                    }
                }
            }
        });
        Ok(Worker { child, stdin, rx, stderr_path })
    }

    fn stderr_tail(&self) -> String {
        let s = std::fs::read_to_string(&self.stderr_path).unwrap_or_default();
        let lines: Vec<&str> = s.lines().filter(|l| !l.starts_with("WARNING")).collect();
        let start = lines.len().saturating_sub(400);
        lines[start..].join("\n")
    }

    fn kill(&mut self) {
        // coverage measurement (tools/coverage.sh) needs workers that exit through main so that their counters are written
        if std::env::var_os("VERIF_GRACEFUL_WORKERS").is_some() && matches!(self.child.try_wait(), Ok(None)) {
            let _ = self.stdin.write_all(b"QUIT\n");
            let _ = self.stdin.flush();
            for _ in 0..200 {
                if !matches!(self.child.try_wait(), Ok(None)) {
                    break;
                }
                std::thread::sleep(std::time::Duration::from_millis(10));
            }
        }
        let _ = self.child.kill();
        let _ = self.child.wait();
        let _ = std::fs::remove_file(&self.stderr_path);
    }
}

impl Drop for Worker {
    fn drop(&mut self) {
        self.kill();
    }
}

pub enum Outcome {
    Pass(Report),
    Fail(Fail),
    Timeout(String),
    Infra(String),
}

/// Extract a crash signature from the worker's stderr: the kind of fatal event and the first frame inside /repo/src.
fn crash_signature(status: &str, tail: &str) -> (String, String) {
    let lines: Vec<&str> = tail.lines().collect();
    // start of the last fatal report
    let mut from = 0;
    for (i, l) in lines.iter().enumerate() {
        if l.contains("FATAL non-unwinding panic") || l.contains("AddressSanitizer") || l.contains("has overflowed its stack") {
            from = i;
        }
    }
    let mut what = String::new();
    for l in &lines[from..] {
        if l.contains("unsafe precondition(s) violated") {
            what = "ub-check".to_string();
        } else if l.contains("AddressSanitizer") {
            what = "asan".to_string();
        } else if l.contains("misaligned pointer dereference") {
            what = "misaligned".to_string();
        } else if l.contains("has overflowed its stack") {
            what = "stack-overflow".to_string();
        }
        if !what.is_empty() {
            break;
        }
    }
    if what.is_empty() {
        what = status.to_string();
    }
    let mut frame = String::new();
    for l in &lines[from..] {
        let t = l.trim();
        if let Some(at) = t.strip_prefix("at /repo/") {
            let mut parts: Vec<&str> = at.split(':').collect();
            if parts.len() >= 3 {
                parts.pop();
            }
            frame = parts.join(":");
            break;
        }
    }
    let excerpt: Vec<&str> = lines[from..].iter().copied().filter(|l| !l.contains("/rustc/") && !l.contains("core::") && !l.contains("std::")).take(40).collect();
    (format!("crash:{}@{}", what, frame), excerpt.join("\n"))
}

struct Exec<P: Prop> {
    worker: Option<Worker>,
    scratch: PathBuf,
    isolate: bool,
    _p: std::marker::PhantomData<P>,
}

impl<P: Prop> Exec<P> {
    fn new(scratch: &Path, force_isolate: bool) -> Self {
        Exec { worker: None, scratch: scratch.to_path_buf(), isolate: P::ISOLATE || force_isolate, _p: std::marker::PhantomData }
    }

    fn run(&mut self, case: &P::Case) -> Outcome {
        if !self.isolate {
            return match run_caught::<P>(case) {
                Ok(r) => Outcome::Pass(r),
                // a failure of the harness's own plumbing (scratch file, child process) is a resource outcome, not a verdict
                Err(f) if f.sig == "infra" => Outcome::Infra(f.msg),
                Err(f) => Outcome::Fail(f),
            };
        }
        if self.worker.is_none() {
            match Worker::spawn(P::ID, &self.scratch) {
                Ok(w) => self.worker = Some(w),
                Err(e) => return Outcome::Infra(format!("cannot spawn worker: {}", e)),
            }
        }
        let line = match serde_json::to_string(case) {
            Ok(l) => l,
            Err(e) => return Outcome::Infra(format!("cannot encode case: {}", e)),
        };
        let w = self.worker.as_mut().unwrap();
        let sent = w.stdin.write_all(line.as_bytes()).and_then(|_| w.stdin.write_all(b"\n")).and_then(|_| w.stdin.flush());
        let reply = if sent.is_ok() { w.rx.recv_timeout(Duration::from_secs(P::CASE_TIMEOUT_S)) } else { Err(RecvTimeoutError::Disconnected) };
        match reply {
            Ok(l) => match serde_json::from_str::<Wire>(l.trim_end()) {
                Ok(Wire::R(r)) => Outcome::Pass(r),
                Ok(Wire::F(f)) if f.sig == "infra" => Outcome::Infra(f.msg),
                Ok(Wire::F(f)) => Outcome::Fail(f),
                Err(e) => {
                    self.worker = None;
                    Outcome::Infra(format!("bad worker reply: {}", e))
                }
            },
            Err(RecvTimeoutError::Timeout) => {
                self.worker = None; // Drop kills it
                Outcome::Timeout(format!("case exceeded {} s in worker", P::CASE_TIMEOUT_S))
            }
            Err(RecvTimeoutError::Disconnected) => {
                // The worker died: the case in flight is the failing case.
                let mut w = self.worker.take().unwrap();
                let status = match w.child.wait() {
                    Ok(st) => {
                        use std::os::unix::process::ExitStatusExt;
                        match st.signal() {
                            Some(libc::SIGABRT) => "SIGABRT".to_string(),
                            Some(libc::SIGSEGV) => "SIGSEGV".to_string(),
                            Some(libc::SIGBUS) => "SIGBUS".to_string(),
                            Some(libc::SIGILL) => "SIGILL".to_string(),
                            Some(libc::SIGKILL) => "SIGKILL".to_string(),
                            Some(s) => format!("signal{}", s),
                            None => format!("exit{}", st.code().unwrap_or(-1)),
                        }
                    }
                    Err(_) => "unknown".to_string(),
                };
                let tail = w.stderr_tail();
                drop(w);
                if let Some(pos) = tail.find("memory allocation of ") {
                    // The generators keep every structure far below the memory of the machine, so a failed request of a
                    // few gigabytes is a resource outcome. A request of 2^44 bytes or more cannot come from the size of a
                    // generated case: the code under test computed an absurd amount (e.g. it trusted the upper bound of an
                    // iterator's size hint) and took the process down with it.
                    let n: u128 = tail[pos + "memory allocation of ".len()..].chars().take_while(|c| c.is_ascii_digit()).collect::<String>().parse().unwrap_or(0);
                    if n < (1u128 << 44) {
                        return Outcome::Infra(format!("worker aborted on an allocation failure (resource outcome)\n{}", abbreviate(&tail, 1000)));
                    }
                    return Outcome::Fail(Fail::new("crash:absurd-allocation", format!("the process executing this case aborted because the code under test asked for {} bytes of memory (the case itself is small); its last report:\n{}", n, abbreviate(&tail, 2000))));
                }
                if status == "SIGKILL" {
                    // most likely the OOM killer or an external kill: resource outcome, not a verdict
                    return Outcome::Infra(format!("worker killed by SIGKILL (out of memory?)\n{}", tail));
                }
                let (sig, excerpt) = crash_signature(&status, &tail);
                Outcome::Fail(Fail::new(sig, format!("the process executing this case died with {}; its last report:\n{}", status, abbreviate(&excerpt, 4000))))
            }
        }
    }
}

//-----------------------------------------------------------------------------
// options and result structures

#[derive(Clone, Debug)]
pub struct Opts {
    pub tier: Tier,
    pub seed: u64,
    pub cfg: String,
    pub shards: usize,
    pub out: PathBuf,
    pub known: PathBuf,
    pub replays_dir: PathBuf,
    pub regress_dir: PathBuf,
    pub scratch: PathBuf,
    pub cases_override: Option<u32>,
    /// run every case in a worker process even if the property does not ask for it
    pub isolate: bool,
}

#[derive(Clone, Debug, Serialize, Deserialize)]
pub struct Violation {
    pub sig: String,
    pub msg: String,
    pub replay: String,
}

#[derive(Serialize, Deserialize)]
pub struct ReplayFile<C> {
    pub property: String,
    pub config: String,
    pub seed: u64,
    pub sig: String,
    pub msg: String,
    pub case: C,
}

#[derive(Default)]
struct ShardStats {
    evals: u64,
    generated: u64,
    enumerated: u64,
    replayed: u64,
    keys: HashSet<u64>,
    classes: BTreeMap<String, u64>,
    samples: Vec<serde_json::Value>,
    excluded_known: BTreeMap<String, u64>,
    violation: Option<Violation>,
    infra: Option<String>,
    timeout: Option<String>,
}

fn sample_value<C: Serialize>(case: &C) -> serde_json::Value {
    let s = serde_json::to_string(case).unwrap_or_default();
    if s.len() <= 700 {
        serde_json::to_value(case).unwrap_or(serde_json::Value::Null)
    } else {
        serde_json::Value::String(abbreviate(&s, 700))
    }
}

struct ShardCtx<'a, P: Prop> {
    exec: Exec<P>,
    stats: ShardStats,
    known: &'a [Known],
    stop: &'a AtomicBool,
    failed: bool,
    want_samples: usize,
}

enum Step {
    Continue,
    Failed(Fail),
    Stop,
}

impl<'a, P: Prop> ShardCtx<'a, P> {
    fn step(&mut self, case: &P::Case, kind: u8) -> Step {
        if self.stop.load(Ordering::Relaxed) && !self.failed {
            return Step::Stop;
        }
        let out = self.exec.run(case);
        match out {
            Outcome::Pass(r) => {
                if !self.failed {
                    self.account(case, &r, kind);
                }
                Step::Continue
            }
            Outcome::Fail(f) => {
                if self.known.iter().any(|k| k.key == f.sig) {
                    if !self.failed {
                        *self.stats.excluded_known.entry(f.sig.clone()).or_insert(0) += 1;
                        self.stats.evals += 1;
                    }
                    return Step::Continue;
                }
                self.failed = true;
                Step::Failed(f)
            }
            Outcome::Timeout(m) => {
                if !self.failed {
                    let path = format!("{}", serde_json::to_string(case).map(|s| abbreviate(&s, 2000)).unwrap_or_default());
                    self.stats.timeout = Some(format!("{} — case: {}", m, path));
                    self.stop.store(true, Ordering::Relaxed);
                    return Step::Stop;
                }
                // during shrinking a timeout is treated as "does not reproduce"
                Step::Continue
            }
            Outcome::Infra(m) => {
                if !self.failed {
                    self.stats.infra = Some(m);
                    self.stop.store(true, Ordering::Relaxed);
                    return Step::Stop;
                }
                Step::Continue
            }
        }
    }

    fn account(&mut self, case: &P::Case, r: &Report, kind: u8) {
        let s = &mut self.stats;
        s.evals += r.evals.max(1);
        match kind {
            0 => s.replayed += 1,
            1 => s.enumerated += 1,
            _ => s.generated += 1,
        }
        for k in &r.keys {
            s.keys.insert(*k);
        }
        for c in &r.classes {
            *s.classes.entry(c.clone()).or_insert(0) += 1;
        }
        if !r.keys.is_empty() && s.samples.len() < self.want_samples && kind == 2 {
            s.samples.push(sample_value(case));
        }
    }
}

fn write_replay<P: Prop>(opts: &Opts, f: &Fail, case: &P::Case) -> String {
    let _ = std::fs::create_dir_all(&opts.replays_dir);
    let name = format!("{}-{}-{:016x}.json", P::ID, opts.cfg, hash_str(&format!("{}|{}", f.sig, serde_json::to_string(case).unwrap_or_default())));
    let path = opts.replays_dir.join(name);
    let rf = ReplayFile { property: P::ID.to_string(), config: opts.cfg.clone(), seed: opts.seed, sig: f.sig.clone(), msg: f.msg.clone(), case: case.clone() };
    if let Ok(s) = serde_json::to_string_pretty(&rf) {
        let _ = std::fs::write(&path, s);
    }
    path.to_string_lossy().to_string()
}

fn run_shard<P: Prop>(opts: &Opts, shard: usize, known: &[Known], stop: &AtomicBool) -> ShardStats {
    let mut ctx: ShardCtx<P> = ShardCtx { exec: Exec::new(&opts.scratch, opts.isolate), stats: ShardStats::default(), known, stop, failed: false, want_samples: if shard == 0 { 3 } else { 1 } };

    // 1. regression replays (saved shrunk failures), shard 0 only
    if shard == 0 {
        if let Ok(rd) = std::fs::read_dir(&opts.regress_dir) {
            let mut files: Vec<PathBuf> = rd.filter_map(|e| e.ok()).map(|e| e.path()).filter(|p| p.file_name().and_then(|n| n.to_str()).map(|n| n.starts_with(&format!("{}-", P::ID)) && n.ends_with(".json")).unwrap_or(false)).collect();
            files.sort();
            for path in files {
                let text = match std::fs::read_to_string(&path) {
                    Ok(t) => t,
                    Err(_) => continue,
                };
                let rf: ReplayFile<P::Case> = match serde_json::from_str(&text) {
                    Ok(r) => r,
                    Err(e) => {
                        ctx.stats.infra = Some(format!("cannot parse regression replay {}: {}", path.display(), e));
                        return ctx.stats;
                    }
                };
                match ctx.step(&rf.case, 0) {
                    Step::Continue => {}
                    Step::Stop => return ctx.stats,
                    Step::Failed(f) => {
                        // already minimal: report against a fresh replay file
                        let replay = write_replay::<P>(opts, &f, &rf.case);
                        ctx.stats.violation = Some(Violation { sig: f.sig, msg: format!("regression replay {} fails: {}", path.display(), f.msg), replay });
                        stop.store(true, Ordering::Relaxed);
                        return ctx.stats;
                    }
                }
            }
        }
    }

    // 2. complete small scopes
    {
        let mut failure: Option<(Fail, P::Case)> = None;
        let mut stopped = false;
        P::exhaustive(opts.tier, shard, opts.shards, &mut |case: P::Case| -> bool {
            match ctx.step(&case, 1) {
                Step::Continue => true,
                Step::Stop => {
                    stopped = true;
                    false
                }
                Step::Failed(f) => {
                    failure = Some((f, case));
                    false
                }
            }
        });
        if let Some((f, case)) = failure {
            let replay = write_replay::<P>(opts, &f, &case);
            ctx.stats.violation = Some(Violation { sig: f.sig, msg: f.msg, replay });
            stop.store(true, Ordering::Relaxed);
            return ctx.stats;
        }
        if stopped {
            return ctx.stats;
        }
    }

    // 3. generated cases
    let total = opts.cases_override.unwrap_or_else(|| P::cases(opts.tier));
    let mut cases = total / opts.shards as u32;
    if (shard as u32) < total % opts.shards as u32 {
        cases += 1;
    }
    if cases == 0 {
        return ctx.stats;
    }
    let mut seed = [0u8; 32];
    let s0 = mix(opts.seed, hash_str(P::ID));
    let s1 = mix(s0, hash_str(&opts.cfg));
    let s2 = mix(s1, shard as u64);
    let s3 = mix(s2, hash_str(opts.tier.name()));
    seed[0..8].copy_from_slice(&s0.to_le_bytes());
    seed[8..16].copy_from_slice(&s1.to_le_bytes());
    seed[16..24].copy_from_slice(&s2.to_le_bytes());
    seed[24..32].copy_from_slice(&s3.to_le_bytes());
    let config = Config { cases, failure_persistence: None, max_shrink_iters: 1500, max_shrink_time: 15_000, max_global_rejects: 65536, ..Config::default() };
    let mut runner = TestRunner::new_with_rng(config, TestRng::from_seed(RngAlgorithm::ChaCha, &seed));
    let strategy = P::strategy(opts.tier, &opts.cfg);
    let last_fail: RefCell<Option<Fail>> = RefCell::new(None);
    let ctx_cell = RefCell::new(ctx);
    let result = runner.run(&strategy, |case| match ctx_cell.borrow_mut().step(&case, 2) {
        Step::Continue => Ok(()),
        Step::Stop => Ok(()),
        Step::Failed(f) => {
            let m = f.msg.clone();
            *last_fail.borrow_mut() = Some(f);
            Err(TestCaseError::fail(m))
        }
    });
    let mut ctx = ctx_cell.into_inner();
    let last_fail = last_fail.into_inner();
    match result {
        Ok(()) => {}
        Err(TestError::Fail(_reason, case)) => {
            // Re-run the minimal case once to get its own signature/message.
            let f = match ctx.exec.run(&case) {
                Outcome::Fail(f) => f,
                _ => last_fail.clone().unwrap_or(Fail::new("unknown", "failure did not reproduce on the shrunk case")),
            };
            let replay = write_replay::<P>(opts, &f, &case);
            ctx.stats.violation = Some(Violation { sig: f.sig, msg: f.msg, replay });
            stop.store(true, Ordering::Relaxed);
        }
        Err(TestError::Abort(reason)) => {
            ctx.stats.infra = Some(format!("proptest aborted (generator health): {}", reason));
            stop.store(true, Ordering::Relaxed);
        }
    }
    ctx.stats
}

pub fn run_prop<P: Prop>(opts: &Opts) -> i32 {
    install_panic_hook();
    let start = Instant::now();
    let known = load_known(&opts.known, P::ID);
    let stop = AtomicBool::new(false);
    let _ = std::fs::create_dir_all(&opts.scratch);
    let shard_stats: Vec<ShardStats> = std::thread::scope(|s| {
        let handles: Vec<_> = (0..opts.shards)
            .map(|shard| {
                let known = &known;
                let stop = &stop;
                std::thread::Builder::new().stack_size(64 << 20).spawn_scoped(s, move || run_shard::<P>(opts, shard, known, stop)).unwrap()
            })
            .collect();
        handles.into_iter().map(|h| h.join().unwrap_or_else(|_| ShardStats { infra: Some("shard thread panicked (harness bug)".into()), ..ShardStats::default() })).collect()
    });

    let mut evals = 0u64;
    let mut generated = 0u64;
    let mut enumerated = 0u64;
    let mut replayed = 0u64;
    let mut keys: HashSet<u64> = HashSet::new();
    let mut classes: BTreeMap<String, u64> = BTreeMap::new();
    let mut samples = Vec::new();
    let mut excluded: BTreeMap<String, u64> = BTreeMap::new();
    let mut violations = Vec::new();
    let mut infra = Vec::new();
    for st in shard_stats {
        evals += st.evals;
        generated += st.generated;
        enumerated += st.enumerated;
        replayed += st.replayed;
        keys.extend(st.keys);
        for (k, v) in st.classes {
            *classes.entry(k).or_insert(0) += v;
        }
        if samples.len() < 5 {
            samples.extend(st.samples.into_iter().take(5usize.saturating_sub(samples.len()).min(3)));
        }
        for (k, v) in st.excluded_known {
            *excluded.entry(k).or_insert(0) += v;
        }
        if let Some(v) = st.violation {
            violations.push(v);
        }
        if let Some(m) = st.infra {
            infra.push(m);
        }
        if let Some(m) = st.timeout {
            infra.push(format!("TIMEOUT: {}", m));
        }
    }
    if violations.is_empty() && infra.is_empty() {
        if let Err(m) = P::health(&classes, opts.tier) {
            infra.push(format!("generator health check failed: {}", m));
        }
    }

    // keys file: raw little-endian u64
    let keys_path = opts.out.with_extension("keys");
    {
        let mut buf = Vec::with_capacity(keys.len() * 8);
        let mut sorted: Vec<u64> = keys.iter().copied().collect();
        sorted.sort_unstable();
        for k in sorted {
            buf.extend_from_slice(&k.to_le_bytes());
        }
        let _ = std::fs::write(&keys_path, buf);
    }
    let known_lines: Vec<serde_json::Value> = known
        .iter()
        .map(|k| serde_json::json!({"key": k.key, "text": k.text, "excluded": excluded.get(&k.key).copied().unwrap_or(0)}))
        .collect();
    let frag = serde_json::json!({
        "property_id": P::ID,
        "config": opts.cfg,
        "tier": opts.tier.name(),
        "seed": opts.seed,
        "level": P::LEVEL,
        "rule": P::RULE,
        "evaluations": evals,
        "cases_generated": generated,
        "cases_enumerated": enumerated,
        "cases_replayed": replayed,
        "distinct_nontrivial": keys.len(),
        "keys_file": keys_path.to_string_lossy(),
        "classes": classes,
        "samples": samples,
        "exhaustive_note": P::exhaustive_note(opts.tier),
        "known": known_lines,
        "violations": violations,
        "infra": infra,
        "assumptions": P::assumptions(),
        "isolated": P::ISOLATE || opts.isolate,
        "wall_s": start.elapsed().as_secs_f64(),
    });
    if let Err(e) = std::fs::write(&opts.out, serde_json::to_string_pretty(&frag).unwrap()) {
        eprintln!("cannot write {}: {}", opts.out.display(), e);
        return 2;
    }
    for k in &known {
        println!("KNOWN-FINDING: property={} {}", P::ID, k.text);
    }
    if !violations.is_empty() {
        for v in &violations {
            println!("VIOLATION property={} replay={}", P::ID, v.replay);
            println!("  config={} signature={}", opts.cfg, v.sig);
            for l in abbreviate(&v.msg, 3000).lines().take(24) {
                println!("  | {}", l);
            }
        }
        return 1;
    }
    if !infra.is_empty() {
        for m in &infra {
            println!("INCONCLUSIVE property={} config={}: {}", P::ID, opts.cfg, abbreviate(m, 3000));
        }
        return 2;
    }
    0
}

pub fn replay_main<P: Prop>(file: &Path, scratch: &Path, cfg: &str) -> i32 {
    // replays always run isolated so that a crash is reported instead of taking the reporter down
    install_panic_hook();
    let text = match std::fs::read_to_string(file) {
        Ok(t) => t,
        Err(e) => {
            println!("cannot read {}: {}", file.display(), e);
            return 2;
        }
    };
    let rf: ReplayFile<P::Case> = match serde_json::from_str(&text) {
        Ok(r) => r,
        Err(e) => {
            println!("cannot parse {}: {}", file.display(), e);
            return 2;
        }
    };
    let _ = std::fs::create_dir_all(scratch);
    let mut exec: Exec<P> = Exec::new(scratch, true);
    match exec.run(&rf.case) {
        Outcome::Pass(_) => {
            println!("REPLAY property={} config={} case passes", P::ID, cfg);
            0
        }
        Outcome::Fail(f) => {
            println!("VIOLATION property={} replay={}", P::ID, file.display());
            println!("  config={} signature={}", cfg, f.sig);
            for l in abbreviate(&f.msg, 3000).lines().take(40) {
                println!("  | {}", l);
            }
            1
        }
        Outcome::Timeout(m) | Outcome::Infra(m) => {
            println!("INCONCLUSIVE property={} config={}: {}", P::ID, cfg, m);
            2
        }
    }
}

/// Helper for strategies: a boxed strategy from anything.
pub fn boxed<S: Strategy + 'static>(s: S) -> BoxedStrategy<S::Value> {
    s.boxed()
}

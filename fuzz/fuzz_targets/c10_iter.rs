#![no_main]
// Coverage-guided campaign for C10: the fuzzer's bytes drive the SAME proptest strategy as the property check
// (pass-through RNG), the SAME interpreter and oracle run in-process; AddressSanitizer is the extra monitor.
use libfuzzer_sys::fuzz_target;
use sds_verif::fuzzing;
use sds_verif::props::c10::C10;

fuzz_target!(|data: &[u8]| {
    fuzzing::one_input::<C10>(data);
});

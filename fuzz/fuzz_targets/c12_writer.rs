#![no_main]
// Coverage-guided campaign for C12: the fuzzer's bytes are decoded (serde byte decoder, then Prop::sanitize) into the SAME
// case type that the property check generates; the SAME interpreter and oracle run in-process; AddressSanitizer is the
// extra monitor.
use libfuzzer_sys::fuzz_target;
use sds_verif::fuzzing;
use sds_verif::props::c12::C12;

fuzz_target!(|data: &[u8]| {
    fuzzing::one_input::<C12>(data);
});

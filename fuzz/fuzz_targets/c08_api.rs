#![no_main]
// Coverage-guided campaign for C08: the fuzzer's bytes drive the SAME proptest strategy as the property check
// (pass-through RNG), the SAME interpreter and oracle run in-process; AddressSanitizer is the extra monitor.
use libfuzzer_sys::fuzz_target;
use sds_verif::fuzzing;
use sds_verif::props::c08::C08;

fuzz_target!(|data: &[u8]| {
    fuzzing::one_input::<C08>(data);
});

#!/bin/bash
# usage: tools/seeds.sh <tier> <seed>...   runs every check for each seed on the current tree; prints anything that is not OK
tier=$1; shift
cd /verif
for s in "$@"; do
  for i in 01 02 03 04 05 06 07 08 09 10 11 12 13 14 15 16 17 18 19 20; do
    out=$(VERIF_SEED=$s ./check C$i --tier $tier 2>&1 | grep -v '^WARNING')
    if echo "$out" | grep -q '^OK '; then echo "seed=$s $(echo "$out" | grep '^OK ')"; else echo "seed=$s C$i NOT-OK"; echo "$out" | head -20; fi
  done
done

#!/bin/bash
# usage: tools/seeds.sh <tier> <seed>... [-- C05 C10 ...]   runs checks for each seed on the current tree; prints anything that is not OK
tier=$1; shift
seeds=(); props=()
while [ $# -gt 0 ]; do if [ "$1" = "--" ]; then shift; props=("$@"); break; fi; seeds+=("$1"); shift; done
[ ${#props[@]} -eq 0 ] && props=(C01 C02 C03 C04 C05 C06 C07 C08 C09 C10 C11 C12 C13 C14 C15 C16 C17 C18 C19 C20)
cd /verif
for s in "${seeds[@]}"; do
  for p in "${props[@]}"; do
    out=$(VERIF_SEED=$s ./check $p --tier $tier 2>&1 | grep -v '^WARNING')
    if echo "$out" | grep -q '^OK '; then echo "seed=$s $(echo "$out" | grep '^OK ')"; else echo "seed=$s $p NOT-OK"; echo "$out" | head -20; fi
  done
done

#!/bin/bash
# usage: tools/try_mutant.sh <patch.diff> <PROP> [<PROP>...]   (env TIER=quick|thorough)
# Applies the patch to /repo, runs the checks, always reverts. Prints one line per property.
patch="$1"; shift
cd /repo || exit 2
if [ -n "$(git status --porcelain -- src)" ]; then echo "/repo/src is dirty; refusing"; exit 2; fi
git apply "$patch" || { echo "patch does not apply: $patch"; exit 2; }
# keep the evidence files written on the unchanged tree: the checks rewrite them on every run
rm -rf /verif/target/evidence-backup-try; cp -r /verif/evidence /verif/target/evidence-backup-try
trap 'git -C /repo checkout -- . ; cp /verif/target/evidence-backup-try/*.json /verif/evidence/ 2>/dev/null' EXIT
cd /verif
for p in "$@"; do
  start=$(date +%s.%N)
  out=$(./check "$p" --tier "${TIER:-quick}" 2>&1 | grep -v '^WARNING')
  rc=$?
  rc=$(echo "$out" | grep -q '^VIOLATION' && echo 1 || (echo "$out" | grep -q '^OK ' && echo 0 || echo 2))
  end=$(date +%s.%N)
  printf "%s %s rc=%s %.1fs %s\n" "$(basename $(dirname $patch))/$(basename $patch)" "$p" "$rc" "$(echo "$end - $start" | bc)" "$(echo "$out" | grep -E 'signature=|INCONCLUSIVE|BUILD FAILED' | head -2 | tr '\n' ' ')"
  if [ -n "$VERBOSE" ]; then echo "$out" | head -30; fi
done

#!/usr/bin/env python3
"""Applies every seeded change to /repo in turn, runs the quick checks of the properties it breaks, reverts, and
writes /verif/seeded/RESULTS.json + RESULTS.md. Usage: tools/matrix.py [tier] [id-prefix ...]"""
import json, os, shutil, subprocess, sys, time
VERIF='/verif'
tier = sys.argv[1] if len(sys.argv) > 1 and sys.argv[1] in ('quick','thorough') else 'quick'
prefixes = [a for a in sys.argv[1:] if a not in ('quick','thorough')]
results = {}
out_json = os.path.join(VERIF,'seeded','RESULTS.json')
if os.path.exists(out_json):
    results = json.load(open(out_json))
# the checks rewrite /verif/evidence on every run: keep the files written on the unchanged tree and put them back afterwards
EV=os.path.join(VERIF,'evidence'); EVB=os.path.join(VERIF,'target','evidence-backup')
shutil.rmtree(EVB, ignore_errors=True); shutil.copytree(EV, EVB)
def restore_evidence():
    for f in os.listdir(EVB):
        shutil.copy(os.path.join(EVB,f), os.path.join(EV,f))
def sh(cmd, **kw):
    return subprocess.run(cmd, shell=True, stdout=subprocess.PIPE, stderr=subprocess.STDOUT, text=True, **kw)
assert sh('git -C /repo status --porcelain -- src').stdout.strip()=='' , '/repo dirty'
for name in sorted(os.listdir(os.path.join(VERIF,'seeded'))):
    d = os.path.join(VERIF,'seeded',name)
    if not os.path.isdir(d) or not os.path.exists(d+'/meta.json'): continue
    if prefixes and not any(name.startswith(p) for p in prefixes): continue
    meta = json.load(open(d+'/meta.json'))
    props = [meta['breaks_property']] + meta.get('also', [])
    r = sh('git -C /repo apply %s/patch.diff' % d)
    if r.returncode != 0:
        results[name] = {'error': 'patch does not apply to the current tree: '+r.stdout[:200]}
        continue
    try:
        for p in props:
            t0=time.time()
            r = sh('cd /verif && ./check %s --tier %s' % (p, tier))
            lines=[l for l in r.stdout.splitlines() if not l.startswith('WARNING')]
            viol=[l for l in lines if l.startswith('VIOLATION')]
            sigs=sorted(set(l.strip() for l in lines if 'signature=' in l))
            results.setdefault(name,{})[p] = {'tier': tier, 'exit': r.returncode, 'detected': r.returncode==1 and bool(viol), 'signatures': sigs[:3], 'wall_s': round(time.time()-t0,1)}
            print(name, p, 'exit', r.returncode, sigs[:1], flush=True)
    finally:
        sh('git -C /repo checkout -- .'); restore_evidence()
    json.dump(results, open(out_json,'w'), indent=1, sort_keys=True)
# markdown
with open(os.path.join(VERIF,'seeded','RESULTS.md'),'w') as f:
    f.write('# Seeded changes vs. checks (written by tools/matrix.py)\n\n| change | property | tier | detected | first signature | wall s |\n|---|---|---|---|---|---|\n')
    for name in sorted(results):
        for p, r in sorted(results[name].items()):
            if not isinstance(r, dict): continue
            f.write('| %s | %s | %s | %s | %s | %s |\n' % (name, p, r.get('tier'), 'yes' if r.get('detected') else 'NO (exit %s)' % r.get('exit'), (r.get('signatures') or [''])[0].replace('|','/'), r.get('wall_s')))
print('done')

#!/usr/bin/env python3
"""Applies every benign (property-preserving) change under /verif/seeded/benign/ to /repo in turn and runs ALL quick checks:
every check must stay silent (exit 0). Writes seeded/benign/RESULTS.json + RESULTS.md. Usage: tools/benign.py [name-prefix ...]"""
import json, os, shutil, subprocess, sys, time
VERIF='/verif'
BASE=os.path.join(VERIF,'seeded','benign')
prefixes=sys.argv[1:]
out_json=os.path.join(BASE,'RESULTS.json')
results=json.load(open(out_json)) if os.path.exists(out_json) else {}
# the checks rewrite /verif/evidence on every run: keep the files written on the unchanged tree and put them back afterwards
EV=os.path.join(VERIF,'evidence'); EVB=os.path.join(VERIF,'target','evidence-backup')
shutil.rmtree(EVB, ignore_errors=True); shutil.copytree(EV, EVB)
def restore_evidence():
    for f in os.listdir(EVB):
        shutil.copy(os.path.join(EVB,f), os.path.join(EV,f))
def sh(cmd):
    return subprocess.run(cmd, shell=True, stdout=subprocess.PIPE, stderr=subprocess.STDOUT, text=True)
assert sh('git -C /repo status --porcelain -- src').stdout.strip()=='' , '/repo dirty'
PROPS=['C%02d'%i for i in range(1,21)]
# checks whose subject a source file belongs to (all 20 with --all)
BY_FILE={'sparse_vector':['C02','C06','C07','C08','C09','C10','C11','C15','C16','C19'],
 'select_support':['C01','C02','C04','C06','C07','C08','C09','C10','C15','C19'],
 'rank_support':['C01','C04','C06','C19','C08'],
 'rl_vector':['C03','C06','C07','C08','C09','C10','C11','C16'],
 'raw_vector':['C01','C05','C06','C07','C08','C12','C13','C14'],
 'int_vector':['C05','C06','C07','C08','C09','C12','C13','C14'],
 'serialize':['C06','C07','C08','C12','C13','C14','C18','C19','C20'],
 'bits.rs':['C01','C05','C17'],
 'wavelet_matrix':['C04','C06','C07','C09','C10','C19'],
 'wm_core':['C04','C06','C07','C09','C19'],
 'bit_vector.rs':['C01','C08','C09','C10','C19'],
 'ops.rs':['C04','C09','C10'],
 'support.rs':['C11']}
ALL='--all' in sys.argv
prefixes=[a for a in prefixes if a!='--all']
ONLY=[x for x in os.environ.get('BENIGN_PROPS','').split(',') if x]
def props_for(patch):
    r=_props_for(patch)
    return [p for p in r if p in ONLY] if ONLY else r
def _props_for(patch):
    if ALL: return PROPS
    out=set()
    for l in open(patch):
        if l.startswith('+++ '):
            for k,v in BY_FILE.items():
                if k in l: out.update(v)
    return sorted(out) or PROPS
for name in sorted(os.listdir(BASE)):
    d=os.path.join(BASE,name)
    if not os.path.isdir(d) or not os.path.exists(d+'/patch.diff'): continue
    if prefixes and not any(name.startswith(p) for p in prefixes): continue
    r=sh('git -C /repo apply %s/patch.diff'%d)
    if r.returncode!=0:
        results[name]={'error':'patch does not apply: '+r.stdout[:200]}; continue
    try:
        t=sh('cd /repo && cargo test --offline 2>&1 | grep -E "^test result"').stdout.strip().replace('\n',' | ')
        results[name]={'suite':t}
        for p in props_for(d+'/patch.diff'):
            t0=time.time()
            r=sh('cd /verif && ./check %s --tier quick'%p)
            lines=[l for l in r.stdout.splitlines() if not l.startswith('WARNING')]
            ok=r.returncode==0
            results[name][p]={'exit':r.returncode,'silent':ok,'first':'' if ok else ' / '.join(l.strip() for l in lines if ('signature=' in l or 'INCONCLUSIVE' in l or l.startswith('  |')))[:400],'wall_s':round(time.time()-t0,1)}
            if not ok: print(name,p,'exit',r.returncode,results[name][p]['first'][:200],flush=True)
        print(name,'done',flush=True)
    finally:
        sh('git -C /repo checkout -- .'); restore_evidence()
    json.dump(results,open(out_json,'w'),indent=1,sort_keys=True)
with open(os.path.join(BASE,'RESULTS.md'),'w') as f:
    f.write('# Benign (property-preserving) changes vs. all quick checks (written by tools/benign.py)\n\nEvery cell must be "ok" (exit 0, no VIOLATION).\n\n| change | existing tests | '+' | '.join(PROPS)+' |\n|---|---|'+'---|'*len(PROPS)+'\n')
    for name in sorted(results):
        r=results[name]
        if 'error' in r: f.write('| %s | %s |\n'%(name,r['error'])); continue
        f.write('| %s | %s | '%(name, 'pass' if 'FAILED' not in r.get('suite','') and r.get('suite') else r.get('suite','?'))+' | '.join(('ok' if r.get(p,{}).get('silent') else ('-' if p not in r else 'EXIT %s'%r.get(p,{}).get('exit'))) for p in PROPS)+' |\n')
print('finished')

#!/bin/bash
# usage: validate_mutant.sh <worktree> <mutant dir>   -> prints one JSON line with the outcome
# Confirms in the scratch worktree: patch applies; full test suite passes with it; demo fails with it; demo passes without it.
wt="$1"; md="$2"
cd "$wt" || exit 2
git checkout -q -- . 2>/dev/null; rm -f tests/demo.rs
res() { echo "{\"mutant\": \"$md\", \"applies\": $1, \"suite_passes_with_patch\": $2, \"demo_fails_with_patch\": $3, \"demo_passes_without_patch\": $4, \"suite_summary\": \"$5\"}"; }
git apply --check "$md/patch.diff" 2>/dev/null || { res false null null null ""; exit 0; }
git apply "$md/patch.diff"
suite=$(cargo test --offline 2>&1 | grep -E "^test result" | tr '\n' ' ' | sed 's/"//g')
suite_ok=true; echo "$suite" | grep -q "FAILED\|[1-9][0-9]* failed" && suite_ok=false; [ -z "$suite" ] && suite_ok=false
mkdir -p tests; cp "$md/demo.rs" tests/demo.rs
if cargo test --offline --test demo >/dev/null 2>&1; then demo_fail=false; else demo_fail=true; fi
if [ "$demo_fail" = false ]; then
  # portable-select mutants only show without target-cpu=native
  if RUSTFLAGS="" CARGO_TARGET_DIR=target/portable cargo test --offline --test demo >/dev/null 2>&1; then :; else demo_fail=true; fi
fi
git checkout -q -- src
if cargo test --offline --test demo >/dev/null 2>&1; then demo_pass=true; else demo_pass=false; fi
rm -f tests/demo.rs; rmdir tests 2>/dev/null
res true $suite_ok $demo_fail $demo_pass "$suite"

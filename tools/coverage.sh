#!/bin/bash
# Measures which regions of /repo/src the quick-tier generators reach (a generator health measure, not a verdict).
# Builds the harness with -C instrument-coverage (nightly), runs every property once in configuration chk with ONE shard
# (the counters are not atomic) and a reduced number of generated cases, lets worker processes exit through main
# (VERIF_GRACEFUL_WORKERS) so that their counters are written, and prints the llvm-cov summary plus the uncovered lines.
# usage: tools/coverage.sh [output.md]      (about 25 minutes; needs ~1 GB under /verif/target)
out=${1:-/verif/COVERAGE.md}
V=/verif; T=$V/target/cov; D=$V/target/cov-data
BIN=$(dirname "$(rustup which --toolchain nightly rustc)")/../lib/rustlib/x86_64-unknown-linux-gnu/bin
mkdir -p "$D/out" "$D/scratch" "$D/replays"; rm -f "$D"/*.profraw
cd $V/harness || exit 2
RUSTFLAGS="-C instrument-coverage" CARGO_TARGET_DIR=$T CARGO_NET_OFFLINE=true cargo +nightly build --offline --profile chk --bin sds-verif 2>&1 | grep -E "^error|Finished" || exit 2
H=$T/chk/sds-verif
export VERIF_GRACEFUL_WORKERS=1
run() { p=$1; cases=$2
  LLVM_PROFILE_FILE=$D/$p-%p-%m.profraw TMPDIR=$D/scratch timeout 3000 $H run $p --tier quick --seed 1 --cfg chk --shards 1 --cases $cases --out $D/out/$p.json --known $V/KNOWN_FINDINGS.txt --replays $D/replays --regress $V/replays/regress --scratch $D/scratch > $D/out/$p.log 2>&1
  echo "$p exit=$? (exit 2 = a generator class was not reached with the reduced case count; irrelevant here)"
}
cd $V
run C01 600 & run C02 150 & run C03 1500 & run C04 600 & run C05 10000 & run C06 5000 & run C07 1000 & run C08 4000 &
run C09 2000 & run C10 5000 & run C11 1500 & run C12 2000 & run C13 300 & run C14 60 & run C15 1500 & run C16 4000 &
wait
run C17 5000 & run C18 200 & run C19 5000 & run C20 10 &
wait
$BIN/llvm-profdata merge -sparse $D/*.profraw -o $D/all.profdata 2>/dev/null
{
echo "# Region coverage of /repo/src reached by the quick-tier generators (tools/coverage.sh)"
echo
echo "Reduced case counts, one shard, configuration chk, commit $(git -C /repo rev-parse --short HEAD) of /repo. A generator health measure: it shows code the"
echo "generators never execute; it says nothing about the values they execute it with."
echo
echo '```'
$BIN/llvm-cov report $H -instr-profile=$D/all.profdata --ignore-filename-regex='(\.cargo|rustc|/verif/)' 2>/dev/null | grep -E "^Filename|repo/src|^TOTAL|^---" | sed 's/  */ /g' | cut -c1-150
echo '```'
echo
echo "Lines never executed:"
echo
$BIN/llvm-cov show $H -instr-profile=$D/all.profdata --ignore-filename-regex='(\.cargo|rustc|/verif/)' --show-line-counts-or-regions --show-instantiations=false 2>/dev/null > $D/show.txt
python3 - "$D/show.txt" <<'P'
import re,sys
cur=None; out={}
for l in open(sys.argv[1],errors='replace'):
    if l.startswith('/repo/src/') and l.rstrip().endswith(':'):
        cur=l.strip()[:-1].replace('/repo/',''); continue
    m=re.match(r'\s*(\d+)\|\s*([0-9.kMG]+)?\|(.*)',l)
    if m and cur and m.group(2)=='0':
        out.setdefault(cur,[]).append(int(m.group(1)))
for f,v in sorted(out.items()):
    rngs=[];start=prev=None
    for ln in v:
        if prev is not None and ln==prev+1: prev=ln; continue
        if start is not None: rngs.append((start,prev))
        start=prev=ln
    if start is not None: rngs.append((start,prev))
    print("* `%s`: %s" % (f, ", ".join(f"{a}-{b}" if a!=b else str(a) for a,b in rngs)))
P
} > "$out"
rm -rf "$D"
echo "written: $out"
